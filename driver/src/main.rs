// mirx: rustc_private driver exporting a "MIR-lite" JSON fact file per crate.
// Used as RUSTC_WORKSPACE_WRAPPER: argv[1] is the real rustc path (dropped).
// Output: $MIRX_OUT/<crate>.<pid>.json, one write per process.
#![feature(rustc_private)]
extern crate rustc_abi;
extern crate rustc_driver;
extern crate rustc_hir;
extern crate rustc_interface;
extern crate rustc_middle;
extern crate rustc_span;

use rustc_driver::Compilation;
use rustc_hir::def::DefKind;
use rustc_hir::def_id::{DefId, LOCAL_CRATE};
use rustc_middle::mir::{
    self, AggregateKind, Body, Const as MirConst, ConstValue, Operand, Place, Rvalue,
    StatementKind, TerminatorKind,
};
use rustc_middle::ty::print::with_no_trimmed_paths;
use rustc_middle::ty::{self, Instance, Ty, TyCtxt, TypingEnv};
use rustc_span::Span;
use std::collections::BTreeMap;
use std::fmt::Write;

// ---------------------------------------------------------------- tiny JSON
#[derive(Clone)]
enum J {
    Null,
    B(bool),
    I(i128),
    S(String),
    A(Vec<J>),
    O(Vec<(&'static str, J)>),
}
fn s<T: Into<String>>(x: T) -> J {
    J::S(x.into())
}
impl J {
    fn write(&self, o: &mut String) {
        match self {
            J::Null => o.push_str("null"),
            J::B(b) => o.push_str(if *b { "true" } else { "false" }),
            J::I(i) => {
                let _ = write!(o, "{}", i);
            }
            J::S(st) => {
                o.push('"');
                for c in st.chars() {
                    match c {
                        '"' => o.push_str("\\\""),
                        '\\' => o.push_str("\\\\"),
                        '\n' => o.push_str("\\n"),
                        '\t' => o.push_str("\\t"),
                        '\r' => o.push_str("\\r"),
                        c if (c as u32) < 0x20 => {
                            let _ = write!(o, "\\u{:04x}", c as u32);
                        }
                        c => o.push(c),
                    }
                }
                o.push('"');
            }
            J::A(v) => {
                o.push('[');
                for (i, x) in v.iter().enumerate() {
                    if i > 0 {
                        o.push(',');
                    }
                    x.write(o);
                }
                o.push(']');
            }
            J::O(v) => {
                o.push('{');
                for (i, (k, x)) in v.iter().enumerate() {
                    if i > 0 {
                        o.push(',');
                    }
                    let _ = write!(o, "\"{}\":", k);
                    x.write(o);
                }
                o.push('}');
            }
        }
    }
}

// ---------------------------------------------------------------- context
struct Cx<'tcx> {
    tcx: TyCtxt<'tcx>,
    tenv: TypingEnv<'tcx>,
    adts: std::cell::RefCell<BTreeMap<String, J>>,
}

fn did_id(tcx: TyCtxt<'_>, did: DefId) -> String {
    format!("{}{}", tcx.crate_name(did.krate), tcx.def_path(did).to_string_no_crate_verbose())
}
fn did_path(tcx: TyCtxt<'_>, did: DefId) -> String {
    with_no_trimmed_paths!(tcx.def_path_str(did))
}

impl<'tcx> Cx<'tcx> {
    fn span(&self, sp: Span) -> J {
        let sm = self.tcx.sess.source_map();
        let lo = sm.lookup_char_pos(sp.lo());
        let mut macros = Vec::new();
        for ed in sp.macro_backtrace() {
            macros.push(s(format!("{:?}", ed.kind)));
        }
        let callsite = sp.source_callsite();
        let cs = sm.lookup_char_pos(callsite.lo());
        J::O(vec![
            ("file", s(format!("{}", lo.file.name.prefer_local_unconditionally()))),
            ("line", J::I(lo.line as i128)),
            ("macros", J::A(macros)),
            ("cs_file", s(format!("{}", cs.file.name.prefer_local_unconditionally()))),
            ("cs_line", J::I(cs.line as i128)),
        ])
    }
    fn ty_str(&self, t: Ty<'tcx>) -> String {
        with_no_trimmed_paths!(format!("{}", t))
    }
    /// structured type description
    fn ty(&self, t: Ty<'tcx>) -> J {
        self.note_ty(t);
        s(self.ty_str(t))
    }
    /// record ADT definitions reachable from a type (one level through args/refs/tuples)
    fn note_ty(&self, t: Ty<'tcx>) {
        match t.kind() {
            ty::Adt(def, args) => {
                let id = did_id(self.tcx, def.did());
                let known = self.adts.borrow().contains_key(&id);
                if !known {
                    self.adts.borrow_mut().insert(id.clone(), J::Null);
                    let mut variants = Vec::new();
                    if def.is_enum() || def.is_struct() {
                        for (vidx, v) in def.variants().iter_enumerated() {
                            let discr = if def.is_enum() {
                                let d = def.discriminant_for_variant(self.tcx, vidx);
                                // raw bits as seen by SwitchInt
                                J::S(format!("{}", d.val))
                            } else {
                                J::Null
                            };
                            let mut fields = Vec::new();
                            for f in v.fields.iter() {
                                let fty = self.tcx.type_of(f.did).skip_binder();
                                fields.push(J::O(vec![
                                    ("name", s(f.name.to_string())),
                                    ("ty", s(self.ty_str(fty))),
                                    ("vis", s(format!("{:?}", f.vis))),
                                ]));
                            }
                            variants.push(J::O(vec![
                                ("name", s(v.name.to_string())),
                                ("index", J::I(vidx.index() as i128)),
                                ("discr", discr),
                                ("fields", J::A(fields)),
                            ]));
                        }
                    }
                    let kind = if def.is_enum() {
                        "enum"
                    } else if def.is_struct() {
                        "struct"
                    } else {
                        "union"
                    };
                    let j = J::O(vec![
                        ("id", s(id.clone())),
                        ("path", s(did_path(self.tcx, def.did()))),
                        ("kind", s(kind)),
                        ("packed", J::B(def.repr().packed())),
                        ("repr", s(format!("{:?}", def.repr()))),
                        ("local", J::B(def.did().is_local())),
                        ("variants", J::A(variants)),
                    ]);
                    self.adts.borrow_mut().insert(id, j);
                }
                for a in args.iter() {
                    if let Some(t2) = a.as_type() {
                        self.note_ty(t2);
                    }
                }
            }
            ty::Ref(_, t2, _) => self.note_ty(*t2),
            ty::RawPtr(t2, _) => self.note_ty(*t2),
            ty::Tuple(ts) => {
                for t2 in ts.iter() {
                    self.note_ty(t2);
                }
            }
            ty::Array(t2, _) | ty::Slice(t2) => self.note_ty(*t2),
            _ => {}
        }
    }
    fn place(&self, p: &Place<'tcx>) -> J {
        let mut projs = Vec::new();
        for e in p.projection.iter() {
            let j = match e {
                mir::ProjectionElem::Deref => s("deref"),
                mir::ProjectionElem::Field(f, _) => J::O(vec![("field", J::I(f.index() as i128))]),
                mir::ProjectionElem::Index(l) => J::O(vec![("index", J::I(l.index() as i128))]),
                mir::ProjectionElem::ConstantIndex { offset, from_end, .. } => J::O(vec![
                    ("cindex", J::I(offset as i128)),
                    ("from_end", J::B(from_end)),
                ]),
                mir::ProjectionElem::Downcast(_, v) => {
                    J::O(vec![("downcast", J::I(v.index() as i128))])
                }
                other => J::O(vec![("other", s(format!("{:?}", other)))]),
            };
            projs.push(j);
        }
        J::O(vec![("local", J::I(p.local.index() as i128)), ("proj", J::A(projs))])
    }
    fn adt_id_of(&self, t: Ty<'tcx>) -> Option<String> {
        if let ty::Adt(def, _) = t.kind() {
            Some(did_id(self.tcx, def.did()))
        } else {
            None
        }
    }
    /// export an evaluated constant value structurally
    fn const_value(&self, val: ConstValue, t: Ty<'tcx>, depth: u32) -> J {
        self.note_ty(t);
        let tys = self.ty_str(t);
        match t.kind() {
            ty::Bool | ty::Int(_) | ty::Uint(_) | ty::Char => {
                if let ConstValue::Scalar(sc) = val {
                    if let Ok(si) = sc.try_to_scalar_int() {
                        let size = si.size();
                        let bits = si.to_bits(size);
                        let v: String = if t.is_signed() {
                            format!("{}", size.sign_extend(bits) as i128)
                        } else {
                            format!("{}", bits)
                        };
                        return J::O(vec![("int", s(v)), ("ty", s(tys))]);
                    }
                }
            }
            ty::Adt(..) | ty::Tuple(..) | ty::Array(..) if depth < 4 => {
                if let Some(d) = self.tcx.try_destructure_mir_constant_for_user_output(val, t) {
                    let fields: Vec<J> =
                        d.fields.iter().map(|(v, ft)| self.const_value(*v, *ft, depth + 1)).collect();
                    let kind = match t.kind() {
                        ty::Adt(..) => "adt",
                        ty::Tuple(..) => "tuple",
                        _ => "array",
                    };
                    return J::O(vec![
                        ("agg", s(kind)),
                        ("adt", self.adt_id_of(t).map(s).unwrap_or(J::Null)),
                        ("variant", d.variant.map(|v| J::I(v.index() as i128)).unwrap_or(J::Null)),
                        ("fields", J::A(fields)),
                        ("ty", s(tys)),
                    ]);
                }
            }
            _ => {}
        }
        // string literal?
        if let ConstValue::Slice { alloc_id, meta } = val {
            if let ty::Ref(_, inner, _) = t.kind() {
                if inner.is_str() {
                    let alloc = self.tcx.global_alloc(alloc_id).unwrap_memory();
                    let bytes = alloc.inner().inspect_with_uninit_and_ptr_outside_interpreter(0..(meta as usize));
                    return J::O(vec![("str", s(String::from_utf8_lossy(bytes).to_string())), ("ty", s(tys))]);
                }
            }
        }
        // pointer to a static?
        if let ConstValue::Scalar(rustc_middle::mir::interpret::Scalar::Ptr(ptr, _)) = val {
            let (prov, _off) = ptr.into_raw_parts();
            if let rustc_middle::mir::interpret::GlobalAlloc::Static(sdid) = self.tcx.global_alloc(prov.alloc_id()) {
                return J::O(vec![("static", s(did_id(self.tcx, sdid))), ("ty", s(tys))]);
            }
            // reference to a byte array constant (e.g. the template of format_args!)
            if let rustc_middle::mir::interpret::GlobalAlloc::Memory(alloc) = self.tcx.global_alloc(prov.alloc_id()) {
                if let ty::Ref(_, inner, _) = t.kind() {
                    if let ty::Array(elem, len) = inner.kind() {
                        if *elem == self.tcx.types.u8 {
                            if let Some(n) = len.try_to_target_usize(self.tcx) {
                                let off = _off.bytes() as usize;
                                let n = n as usize;
                                if off + n <= alloc.inner().len() {
                                    let bytes = alloc.inner().inspect_with_uninit_and_ptr_outside_interpreter(off..off + n);
                                    return J::O(vec![
                                        ("bytes", J::A(bytes.iter().map(|b| J::I(*b as i128)).collect())),
                                        ("ty", s(tys)),
                                    ]);
                                }
                            }
                        }
                    }
                }
            }
        }
        J::O(vec![("opaque", s(format!("{:?}", val))), ("ty", s(tys))])
    }
    fn fn_ref(&self, did: DefId, args: ty::GenericArgsRef<'tcx>) -> Vec<(&'static str, J)> {
        let tcx = self.tcx;
        let argv: Vec<J> = args.iter().map(|a| s(with_no_trimmed_paths!(format!("{}", a)))).collect();
        let mut v = vec![
            ("fn", s(did_id(tcx, did))),
            ("path", s(did_path(tcx, did))),
            ("args", J::A(argv)),
        ];
        // safety of the callee
        let kind = tcx.def_kind(did);
        if matches!(kind, DefKind::Fn | DefKind::AssocFn) {
            let sig = tcx.fn_sig(did).skip_binder();
            v.push(("unsafe", J::B(sig.safety().is_unsafe())));
        }
        v
    }
    fn constant(&self, c: &MirConst<'tcx>, span: Span) -> J {
        let t = c.ty();
        if let ty::FnDef(did, args) = t.kind() {
            let mut v = self.fn_ref(*did, args);
            let res = Instance::try_resolve(self.tcx, self.tenv, *did, args);
            let r = match res {
                Ok(Some(i)) => {
                    let mut rv = self.fn_ref(i.def_id(), i.args);
                    rv.push(("instance_kind", s(format!("{:?}", i.def).split('(').next().unwrap_or("").to_string())));
                    J::O(rv)
                }
                _ => J::Null,
            };
            v.push(("resolved", r));
            v.push(("ty", s(self.ty_str(t))));
            return J::O(v);
        }
        // promoted?
        if let MirConst::Unevaluated(uv, _) = c {
            if let Some(p) = uv.promoted {
                return J::O(vec![
                    ("promoted", J::I(p.index() as i128)),
                    ("of", s(did_id(self.tcx, uv.def))),
                    ("ty", self.ty(t)),
                ]);
            }
        }
        match c.eval(self.tcx, self.tenv, span) {
            Ok(val) => {
                let mut j = self.const_value(val, t, 0);
                if let (J::O(v), MirConst::Unevaluated(uv, _)) = (&mut j, c) {
                    v.push(("item", s(did_id(self.tcx, uv.def))));
                }
                j
            }
            Err(_) => J::O(vec![
                ("opaque", s(with_no_trimmed_paths!(format!("{}", c)))),
                ("ty", self.ty(t)),
            ]),
        }
    }
    fn operand(&self, o: &Operand<'tcx>) -> J {
        match o {
            Operand::Copy(p) => J::O(vec![("copy", self.place(p))]),
            Operand::Move(p) => J::O(vec![("move", self.place(p))]),
            Operand::Constant(c) => J::O(vec![("const", self.constant(&c.const_, c.span))]),
            #[allow(unreachable_patterns)]
            other => J::O(vec![("runtime_checks", s(format!("{:?}", other)))]),
        }
    }
    fn rvalue(&self, r: &Rvalue<'tcx>) -> J {
        match r {
            Rvalue::Use(o, ..) => J::O(vec![("use", self.operand(o))]),
            Rvalue::BinaryOp(op, b) => J::O(vec![
                ("binop", s(format!("{:?}", op))),
                ("l", self.operand(&b.0)),
                ("r", self.operand(&b.1)),
            ]),
            Rvalue::UnaryOp(op, o) => {
                J::O(vec![("unop", s(format!("{:?}", op))), ("x", self.operand(o))])
            }
            Rvalue::Cast(k, o, t) => J::O(vec![
                ("cast", s(format!("{:?}", k))),
                ("x", self.operand(o)),
                ("to", self.ty(*t)),
            ]),
            Rvalue::Ref(_, bk, p) => {
                J::O(vec![("ref", s(format!("{:?}", bk))), ("place", self.place(p))])
            }
            Rvalue::RawPtr(k, p) => {
                J::O(vec![("rawptr", s(format!("{:?}", k))), ("place", self.place(p))])
            }
            Rvalue::Discriminant(p) => J::O(vec![("discr", self.place(p))]),
            Rvalue::CopyForDeref(p) => J::O(vec![("use", J::O(vec![("copy", self.place(p))]))]),
            Rvalue::ThreadLocalRef(did) => J::O(vec![("tlsref", s(did_id(self.tcx, *did)))]),
            Rvalue::Repeat(o, n) => J::O(vec![
                ("repeat", self.operand(o)),
                ("n", s(format!("{}", n))),
            ]),
            Rvalue::Aggregate(k, ops) => {
                let ops: Vec<J> = ops.iter().map(|o| self.operand(o)).collect();
                let kind = match &**k {
                    AggregateKind::Adt(did, v, args, _, _) => {
                        let t = self.tcx.type_of(*did).instantiate(self.tcx, args).skip_norm_wip();
                        self.note_ty(t);
                        J::O(vec![
                            ("adt", s(did_id(self.tcx, *did))),
                            ("variant", J::I(v.index() as i128)),
                        ])
                    }
                    AggregateKind::Tuple => s("tuple"),
                    AggregateKind::Array(_) => s("array"),
                    AggregateKind::Closure(did, _) => J::O(vec![("closure", s(did_id(self.tcx, *did)))]),
                    other => J::O(vec![("other", s(format!("{:?}", other)))]),
                };
                J::O(vec![("agg", kind), ("ops", J::A(ops))])
            }
            other => J::O(vec![("other", s(format!("{:?}", other)))]),
        }
    }
    fn body(&self, body: &Body<'tcx>) -> Vec<(&'static str, J)> {
        let mut locals = Vec::new();
        for (_l, d) in body.local_decls.iter_enumerated() {
            locals.push(self.ty(d.ty));
        }
        // user variable names (debug info) for reports
        let mut names = Vec::new();
        for vdi in body.var_debug_info.iter() {
            if let mir::VarDebugInfoContents::Place(p) = vdi.value {
                if p.projection.is_empty() {
                    names.push(J::A(vec![J::I(p.local.index() as i128), s(vdi.name.to_string())]));
                }
            }
        }
        let mut blocks = Vec::new();
        for (_bb, data) in body.basic_blocks.iter_enumerated() {
            let mut stmts = Vec::new();
            for st in &data.statements {
                match &st.kind {
                    StatementKind::Assign(b) => {
                        stmts.push(J::O(vec![
                            ("assign", self.place(&b.0)),
                            ("rv", self.rvalue(&b.1)),
                            ("span", self.span(st.source_info.span)),
                        ]));
                    }
                    StatementKind::SetDiscriminant { place, variant_index } => {
                        stmts.push(J::O(vec![
                            ("setdiscr", self.place(place)),
                            ("variant", J::I(variant_index.index() as i128)),
                        ]));
                    }
                    StatementKind::StorageLive(_)
                    | StatementKind::StorageDead(_)
                    | StatementKind::Nop
                    | StatementKind::FakeRead(..)
                    | StatementKind::PlaceMention(..)
                    | StatementKind::AscribeUserType(..)
                    | StatementKind::Coverage(..)
                    | StatementKind::ConstEvalCounter
                    | StatementKind::BackwardIncompatibleDropHint { .. } => {}
                    other => stmts.push(J::O(vec![("stmt_other", s(format!("{:?}", other)))])),
                }
            }
            let term = data.terminator();
            let t = match &term.kind {
                TerminatorKind::Goto { target } => J::O(vec![("goto", J::I(target.index() as i128))]),
                TerminatorKind::SwitchInt { discr, targets } => {
                    let mut arms = Vec::new();
                    for (v, t) in targets.iter() {
                        arms.push(J::A(vec![s(format!("{}", v)), J::I(t.index() as i128)]));
                    }
                    J::O(vec![
                        ("switch", self.operand(discr)),
                        ("arms", J::A(arms)),
                        ("otherwise", J::I(targets.otherwise().index() as i128)),
                        ("discr_ty", s(self.ty_str(discr.ty(&body.local_decls, self.tcx)))),
                    ])
                }
                TerminatorKind::Return => s("return"),
                TerminatorKind::Unreachable => s("unreachable"),
                TerminatorKind::UnwindResume => s("resume"),
                TerminatorKind::Call { func, args, destination, target, .. } => {
                    let a: Vec<J> = args.iter().map(|a| self.operand(&a.node)).collect();
                    J::O(vec![
                        ("call", self.operand(func)),
                        ("args", J::A(a)),
                        ("dest", self.place(destination)),
                        ("target", J::I(target.map(|t| t.index() as i128).unwrap_or(-1))),
                    ])
                }
                TerminatorKind::Assert { cond, expected, msg, target, .. } => {
                    let kind = format!("{:?}", msg);
                    let short = kind.split('(').next().unwrap_or("").to_string();
                    let mut ops = Vec::new();
                    let mut opname = J::Null;
                    match &**msg {
                        mir::AssertKind::Overflow(op, a, b) => {
                            opname = s(format!("{:?}", op));
                            ops.push(self.operand(a));
                            ops.push(self.operand(b));
                        }
                        mir::AssertKind::OverflowNeg(a)
                        | mir::AssertKind::DivisionByZero(a)
                        | mir::AssertKind::RemainderByZero(a) => ops.push(self.operand(a)),
                        mir::AssertKind::BoundsCheck { len, index } => {
                            ops.push(self.operand(len));
                            ops.push(self.operand(index));
                        }
                        _ => {}
                    }
                    J::O(vec![
                        ("assert", self.operand(cond)),
                        ("expected", J::B(*expected)),
                        ("kind", s(short)),
                        ("op", opname),
                        ("ops", J::A(ops)),
                        ("target", J::I(target.index() as i128)),
                    ])
                }
                TerminatorKind::Drop { target, .. } => J::O(vec![("goto", J::I(target.index() as i128))]),
                TerminatorKind::FalseEdge { real_target, .. } => {
                    J::O(vec![("goto", J::I(real_target.index() as i128))])
                }
                TerminatorKind::FalseUnwind { real_target, .. } => {
                    J::O(vec![("goto", J::I(real_target.index() as i128))])
                }
                other => J::O(vec![("term_other", s(format!("{:?}", other)))]),
            };
            blocks.push(J::O(vec![
                ("stmts", J::A(stmts)),
                ("term", t),
                ("tspan", self.span(term.source_info.span)),
                ("cleanup", J::B(data.is_cleanup)),
            ]));
        }
        vec![
            ("arg_count", J::I(body.arg_count as i128)),
            ("locals", J::A(locals)),
            ("names", J::A(names)),
            ("blocks", J::A(blocks)),
        ]
    }
}

struct Cb;
impl rustc_driver::Callbacks for Cb {
    fn after_analysis<'tcx>(
        &mut self,
        _c: &rustc_interface::interface::Compiler,
        tcx: TyCtxt<'tcx>,
    ) -> Compilation {
        let krate = tcx.crate_name(LOCAL_CRATE).to_string();
        let want = std::env::var("MIRX_CRATES").unwrap_or("fpdec,fpdec_core,fpdec_macros".into());
        if !want.split(',').any(|w| w == krate) {
            return Compilation::Continue;
        }
        let outdir = match std::env::var("MIRX_OUT") {
            Ok(o) => o,
            Err(_) => return Compilation::Continue,
        };
        let adts = std::cell::RefCell::new(BTreeMap::new());
        let mut fns = Vec::new();
        let mut items = Vec::new();
        for ldid in tcx.hir_body_owners() {
            let did = ldid.to_def_id();
            let kind = tcx.def_kind(did);
            match kind {
                DefKind::Fn | DefKind::AssocFn | DefKind::Closure => {
                    let body = tcx.optimized_mir(did);
                    let cx = Cx { tcx, tenv: TypingEnv::post_analysis(tcx, did), adts: adts.clone() };
                    let is_closure = matches!(kind, DefKind::Closure);
                    let vis = if is_closure { "closure".to_string() } else { format!("{:?}", tcx.visibility(did)) };
                    let unsafe_fn = if is_closure { false } else { tcx.fn_sig(did).skip_binder().safety().is_unsafe() };
                    let imp = if is_closure {
                        J::Null
                    } else if let Some(i) = tcx.impl_of_assoc(did) {
                        let (tr, targs) = match tcx.impl_opt_trait_ref(i) {
                            Some(t) => {
                                let t = t.skip_binder();
                                let a: Vec<J> = t.args.iter().map(|a| s(with_no_trimmed_paths!(format!("{}", a)))).collect();
                                (s(did_id(tcx, t.def_id)), J::A(a))
                            }
                            None => (J::Null, J::A(vec![])),
                        };
                        let st = with_no_trimmed_paths!(format!("{}", tcx.type_of(i).skip_binder()));
                        J::O(vec![("id", s(did_id(tcx, i))), ("trait", tr), ("trait_args", targs), ("self", s(st))])
                    } else {
                        J::Null
                    };
                    let generics = if is_closure { 0 } else { tcx.generics_of(did).count() };
                    let mut gnames = Vec::new();
                    if !is_closure {
                        let g = tcx.generics_of(did);
                        for i in 0..g.count() {
                            gnames.push(s(g.param_at(i, tcx).name.to_string()));
                        }
                    }
                    let mut v = vec![
                        ("id", s(did_id(tcx, did))),
                        ("path", s(did_path(tcx, did))),
                        ("name", s(tcx.opt_item_name(did).map(|n| n.to_string()).unwrap_or_default())),
                        ("crate", s(krate.clone())),
                        ("kind", s(format!("{:?}", kind))),
                        ("vis", s(vis)),
                        ("unsafe", J::B(unsafe_fn)),
                        ("impl", imp),
                        ("generics", J::I(generics as i128)),
                        ("generic_names", J::A(gnames)),
                        ("attrs", s(format!("{:?}", tcx.codegen_fn_attrs(did).flags))),
                        ("span", cx.span(tcx.def_span(did))),
                    ];
                    v.extend(cx.body(body));
                    // promoted constants as small bodies
                    let mut proms = Vec::new();
                    for (_pi, pb) in tcx.promoted_mir(did).iter_enumerated() {
                        proms.push(J::O(cx.body(pb)));
                    }
                    v.push(("promoted", J::A(proms)));
                    *adts.borrow_mut() = cx.adts.into_inner();
                    fns.push(J::O(v));
                }
                DefKind::Const { .. } | DefKind::Static { .. } | DefKind::AssocConst { .. } => {
                    let cx = Cx { tcx, tenv: TypingEnv::post_analysis(tcx, did), adts: adts.clone() };
                    let ty = tcx.type_of(did).skip_binder();
                    let mut val = J::Null;
                    if !matches!(kind, DefKind::Static { .. }) && tcx.generics_of(did).count() == 0 {
                        if let Ok(cv) = tcx.const_eval_poly(did) {
                            val = cx.const_value(cv, ty, 0);
                        }
                    }
                    let mut v = vec![
                        ("id", s(did_id(tcx, did))),
                        ("path", s(did_path(tcx, did))),
                        ("kind", s(format!("{:?}", kind))),
                        ("ty", cx.ty(ty)),
                        ("value", val),
                        ("span", cx.span(tcx.def_span(did))),
                    ];
                    if let DefKind::Static { mutability, .. } = kind {
                        let flags = tcx.codegen_fn_attrs(did).flags;
                        v.push(("mutable", J::B(mutability.is_mut())));
                        v.push(("thread_local", J::B(format!("{:?}", flags).contains("THREAD_LOCAL"))));
                        v.push(("freeze", J::B(ty.is_freeze(tcx, cx.tenv))));
                        // initializer body of statics is interesting for R-TLS
                        let body = tcx.mir_for_ctfe(did);
                        v.push(("init", J::O(cx.body(body))));
                    }
                    *adts.borrow_mut() = cx.adts.into_inner();
                    items.push(J::O(v));
                }
                _ => {}
            }
        }
        // impls (also marker impls without bodies)
        let mut impls = Vec::new();
        for id in tcx.hir_free_items() {
            let did = id.owner_id.to_def_id();
            if let DefKind::Impl { .. } = tcx.def_kind(did) {
                let (tr, targs) = match tcx.impl_opt_trait_ref(did) {
                    Some(t) => {
                        let t = t.skip_binder();
                        let a: Vec<J> = t.args.iter().map(|a| s(with_no_trimmed_paths!(format!("{}", a)))).collect();
                        (s(did_id(tcx, t.def_id)), J::A(a))
                    }
                    None => (J::Null, J::A(vec![])),
                };
                let st = with_no_trimmed_paths!(format!("{}", tcx.type_of(did).skip_binder()));
                let mut its = Vec::new();
                for it in tcx.associated_items(did).in_definition_order() {
                    its.push(J::O(vec![
                        ("name", s(it.name().to_string())),
                        ("id", s(did_id(tcx, it.def_id))),
                        ("kind", s(format!("{:?}", it.kind).split('{').next().unwrap_or("").trim().to_string())),
                    ]));
                }
                let cx = Cx { tcx, tenv: TypingEnv::post_analysis(tcx, did), adts: adts.clone() };
                // associated constants of the trait as seen through this (non-generic) impl, defaults included
                let mut consts = Vec::new();
                if tcx.generics_of(did).count() == 0 {
                    if let Some(t) = tcx.impl_opt_trait_ref(did) {
                        let tref = t.skip_binder();
                        for it in tcx.associated_items(tref.def_id).in_definition_order() {
                            if !format!("{:?}", it.kind).starts_with("Const") {
                                continue;
                            }
                            let uv = rustc_middle::mir::UnevaluatedConst { def: it.def_id, args: tref.args, promoted: None };
                            if let Ok(cv) = tcx.const_eval_resolve(TypingEnv::fully_monomorphized(), uv, rustc_span::DUMMY_SP) {
                                let ty = tcx.type_of(it.def_id).instantiate(tcx, tref.args).skip_norm_wip();
                                consts.push(J::O(vec![("name", s(it.name().to_string())), ("value", cx.const_value(cv, ty, 0))]));
                            }
                        }
                    }
                }
                impls.push(J::O(vec![
                    ("id", s(did_id(tcx, did))),
                    ("trait", tr),
                    ("trait_args", targs),
                    ("self", s(st)),
                    ("generics", J::I(tcx.generics_of(did).count() as i128)),
                    ("items", J::A(its)),
                    ("consts", J::A(consts)),
                    ("span", cx.span(tcx.def_span(did))),
                ]));
            }
        }
        // crate-level lint attributes of interest
        let unsafe_level = {
            match rustc_lint::unerased_lint_store(tcx.sess).find_lints("unsafe_code") {
                Some(ids) if !ids.is_empty() => {
                    let ls = tcx.lint_level_at_node(ids[0].lint, rustc_hir::CRATE_HIR_ID);
                    format!("{:?}", ls.level)
                }
                _ => "unknown".to_string(),
            }
        };
        let cfgs: Vec<J> = {
            let mut v: Vec<String> = tcx
                .sess
                .config
                .iter()
                .map(|(k, val)| match val {
                    Some(x) => format!("{}={}", k, x),
                    None => format!("{}", k),
                })
                .filter(|c| c.starts_with("feature") || c == "debug_assertions" || c == "overflow_checks" || c == "test" || c.starts_with("fpdec"))
                .collect();
            v.sort();
            v.into_iter().map(s).collect()
        };
        let adt_list: Vec<J> = adts.into_inner().into_values().filter(|j| !matches!(j, J::Null)).collect();
        let out = J::O(vec![
            (
                "meta",
                J::O(vec![
                    ("crate", s(krate.clone())),
                    ("config", s(std::env::var("MIRX_CONFIG").unwrap_or_default())),
                    ("cfg", J::A(cfgs)),
                    ("unsafe_code_lint", s(unsafe_level)),
                    ("overflow_checks", J::B(tcx.sess.overflow_checks())),
                    ("crate_types", s(format!("{:?}", tcx.crate_types()))),
                ]),
            ),
            ("adts", J::A(adt_list)),
            ("impls", J::A(impls)),
            ("items", J::A(items)),
            ("fns", J::A(fns)),
        ]);
        let mut text = String::new();
        out.write(&mut text);
        let path = format!("{}/{}.{}.json", outdir, krate, std::process::id());
        std::fs::write(&path, text).expect("mirx: cannot write fact file");
        Compilation::Continue
    }
}

extern crate rustc_lint;

fn main() {
    let args: Vec<String> = std::env::args().skip(1).collect();
    rustc_driver::run_compiler(&args, &mut Cb);
}
