#!/bin/bash
# run every registered check on /repo (refreshes all evidence files); usage: ./run_all.sh [quick|thorough]
tier=${1:-quick}
cd "$(dirname "$0")"
rc=0
for c in $(python3 -c "import json;print(' '.join(x['property_id'] for x in json.load(open('MANIFEST.json'))['checks']))"); do
  ./check $c --tier $tier | grep -E "tier=|^VIOLATION" || rc=1
done
exit $rc
