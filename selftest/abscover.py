#!/usr/bin/env python3
"""Sampled soundness selftest of the SYMBOLIC engine: every concrete execution must be covered by an abstract outcome
(a test of the TOOL, not part of any verdict).

For sampled cells of the specifications (the same jobs the checks run) the symbolic exploration is captured: the root, its symbolic
arguments, the initial facts and every outcome (kind, value, path facts).  Then, for concrete points x0 of the cell:
  * the same root is interpreted CONCRETELY on x0 (no summaries but the thread's rounding mode; the concrete interpreter is itself
    compared with the compiled library by selftest/conformance.py) -> the reference behaviour r0;
  * every fact of every outcome state whose atoms can be evaluated at x0 (symbols, truncated quotients, trailing / leading zero counts,
    odd parts, RoundSpec terms, gcd terms, substitutions, congruences, interval bounds of forms) is evaluated: an outcome with a false
    fact is REFUTED for x0, the others are CONSISTENT;
  * (A) some consistent outcome must have the kind of r0 and a value compatible with it - otherwise a feasible path was pruned or a
        derived fact is wrong (UNSOUND);
  * (B) in runs without contract summaries: a consistent outcome all of whose facts and whose value could be evaluated must return
        exactly r0 - otherwise its value term or its facts are wrong (UNSOUND).
usage: abscover.py [--specs c01,c05,...] [--jobs N] [--points K] [--seed S]
"""
import importlib
import math
import os
import random
import sys
import time

HERE = os.path.dirname(os.path.abspath(__file__))
sys.path.insert(0, os.path.dirname(HERE))
sys.path.insert(0, HERE)
sys.setrecursionlimit(10000)

from fpsa import absint, rounding                                     # noqa: E402
from fpsa.absint import Interp, Opts, Agg, Int, K, ByRef, SliceVal    # noqa: E402
from fpsa.poly import pthaw                                           # noqa: E402
from fpsa.harness import get_db                                       # noqa: E402

SPECS = ['c01', 'c02', 'c03', 'c04', 'c05', 'c06', 'c08', 'c09', 'c10', 'c12', 'c13', 'c14', 'c15', 'c16']
MODES = rounding.MODES


class Unknown(Exception):
    pass


# ----------------------------------------------------------------------------- evaluation of atoms / polynomials / facts at a point
def round_spec(mode, N, D):
    """RoundSpec(mode, N / D) for D > 0 (from the definitions of the eight modes)"""
    q, r = divmod(N, D)          # floor
    if r == 0:
        return q
    twice = 2 * r
    if mode == 'RoundDown':
        return q if N >= 0 else q + 1
    if mode == 'RoundUp':
        return q + 1 if N >= 0 else q
    if mode == 'RoundFloor':
        return q
    if mode == 'RoundCeiling':
        return q + 1
    if mode == 'Round05Up':
        t = q if N >= 0 else q + 1          # towards zero
        if abs(t) % 5 == 0:                 # last digit 0 or 5: away from zero
            return q + 1 if N >= 0 else q
        return t
    if twice != D:
        return q + 1 if twice > D else q
    if mode == 'RoundHalfEven':
        return q if q % 2 == 0 else q + 1
    if mode == 'RoundHalfUp':
        return q + 1 if N >= 0 else q
    if mode == 'RoundHalfDown':
        return q if N >= 0 else q + 1
    raise Unknown('mode %s' % mode)


class Env:
    def __init__(self, atoms, x0, mode, state=None, raw=None):
        self.atoms, self.x0, self.mode, self.state = atoms, x0, mode, state
        self.raw = raw              # the bytes of the input string (parser runs): position = remaining length
        self.cache = {}

    def atom(self, a, use_subst=True):
        key = (a, use_subst)
        if key in self.cache:
            v = self.cache[key]
            if isinstance(v, Unknown):
                raise v
            return v
        try:
            v = self._atom(a, use_subst)
        except Unknown as u:
            self.cache[key] = u
            raise
        self.cache[key] = v
        return v

    def _atom(self, a, use_subst):
        d = self.atoms.desc[a]
        k = d[0]
        if k == 'sym':
            if d[1] in self.x0:
                return self.x0[d[1]]
            raise Unknown('sym %s' % d[1])
        if k == 'tdiv':
            A, B = self.poly(pthaw(d[1])), self.poly(pthaw(d[2]))
            if B == 0:
                raise Unknown('division by zero')
            q = abs(A) // abs(B)
            return q if (A >= 0) == (B > 0) else -q
        if k == 'tz':
            X = self.poly(pthaw(d[1]))
            return d[2] if X == 0 else (X & -X).bit_length() - 1
        if k == 'lz':
            X = self.poly(pthaw(d[1]))
            if X < 0:
                raise Unknown('lz of a negative term')
            return d[2] - X.bit_length()
        if k == 'odd':
            A = self.poly(pthaw(d[1]))
            if A == 0:
                return 0
            return A >> ((A & -A).bit_length() - 1)
        if k == 'rnd':
            N, D = self.poly(pthaw(d[1])), self.poly(pthaw(d[2]))
            if D <= 0:
                raise Unknown('rnd with a non-positive divisor')
            mk = d[3]
            if mk == 'thread':
                if self.mode is None:
                    raise Unknown('thread mode')
                mk = self.mode
            return round_spec(mk, N, D)
        if k == 'gcd':
            return math.gcd(abs(self.poly(pthaw(d[1]))), 10 ** d[2])
        if k == 'byteat':
            if self.raw is None:
                raise Unknown('no input string')
            pos = self.poly(pthaw(d[1]))
            idx = len(self.raw) - pos
            if 0 <= idx < len(self.raw):
                return self.raw[idx]
            raise Unknown('no byte at that position')
        c = self.atoms.cond.get(a)
        if c is not None and c[0] == 'sign':
            # a boolean atom: the truth value of a sign condition
            v = self.poly(c[1] if isinstance(c[1], dict) else pthaw(c[1]))
            return 1 if ((v > 0) - (v < 0)) in c[2] else 0
        if use_subst and self.state is not None and a in self.state.subst:
            return self.poly(self.state.subst[a])
        raise Unknown('atom %r' % (d[:2],))

    def poly(self, p):
        tot = 0
        for mono, c in p.items():
            v = c
            for a in mono:
                v *= self.atom(a)
            tot += v
        return tot


def define_parser_atoms(env, s):
    """the run lengths and value terms contract A introduced on this path, computed from the input string: an event (kind, remaining length
    before the run, length term) fixes the one undefined atom of its length term; the value term of a digit run is the numeral read so far
    (coefficient) resp. the exponent accumulated with the cut-off of accum_exp.  Substitutions are used as equations in both directions.
    Returns a refutation (an event whose length term evaluates to something else than the maximal run in the string) or None."""
    raw = env.raw
    L = len(raw)
    events = s.ghost.get('events') or ()
    values = s.ghost.get('values') or ()

    def propagate():
        progress = True
        while progress:
            progress = False
            for a, p in s.subst.items():
                try:
                    env.atom(a)
                    continue
                except Unknown:
                    pass
                # a := p : either p is evaluable (then a is, through the substitution) or p has one undefined atom and a is known another way
            for a, p in s.subst.items():
                eq = dict(p)
                eq[(a,)] = eq.get((a,), 0) - 1          # p - a = 0
                before = len(env.cache)
                r = solve_single(env, eq, 0, use_subst=False)
                if r == 'solved':
                    progress = True
    propagate()
    numeral = ''
    for i, (kind, before, kf) in enumerate(events):
        try:
            b = env.poly(pthaw(before))
        except Unknown:
            return None
        idx = L - b
        if not (0 <= idx <= L):
            return 'event %d (%s) starts outside the string' % (i, kind)
        cls = b'0' if kind == 'zeros' else b'0123456789'
        k = 0
        while idx + k < L and raw[idx + k] in cls:
            k += 1
        r = solve_single(env, pthaw(kf), k)
        if r == 'differs':
            return 'event %d: the path says the %s run at index %d has another length than the %d in the string' % (i, kind, idx, k)
        if r is False:
            return None
        propagate()
        run = raw[idx:idx + k].decode()
        val = values[i][1] if i < len(values) else None
        if kind == 'digits':
            numeral += run
            if val is not None:
                if solve_single(env, pthaw(val), int(numeral) if numeral else 0) == 'differs':
                    return 'event %d: value term of the numeral differs' % i
        elif kind == 'expdigits' and val is not None:
            e = 0
            for ch in run:
                if e < 0x1000000:
                    e = e * 10 + int(ch)
            if solve_single(env, pthaw(val), e) == 'differs':
                return 'event %d: value term of the exponent differs' % i
        propagate()
    return None


def solve_single(env, p, target, use_subst=True):
    """make the polynomial p evaluate to target by defining its single undefined atom (linear, coefficient +-1).
    'solved' (an atom was defined), True (already evaluable and equal), 'differs' (evaluable, another value), False (not solvable)"""
    unknown = None
    rest = 0
    for mono, c in p.items():
        und = []
        for a in mono:
            try:
                env.atom(a, use_subst)
            except Unknown:
                und.append(a)
        if not und:
            v = c
            for a in mono:
                v *= env.atom(a, use_subst)
            rest += v
        elif len(und) == 1 and len(mono) == 1 and unknown is None and c in (1, -1):
            unknown = (und[0], c)
        else:
            return False
    if unknown is None:
        return True if rest == target else 'differs'
    a, c = unknown
    if env.atoms.desc[a][0] != 'fresh' or a in env.atoms.cond:
        return False            # an atom with a definition of its own (a byte, a quotient, a condition) is never defined by an equation
    v = (target - rest) * c
    # forget the failures cached so far: they may depend on the atom defined now
    for k_ in [k_ for k_, v_ in env.cache.items() if isinstance(v_, Unknown)]:
        del env.cache[k_]
    env.cache[(a, True)] = v
    env.cache[(a, False)] = v
    return 'solved'


def check_facts(env, s):
    """(refuting fact or None, number of facts evaluated, number skipped)"""
    n_ev = n_skip = 0
    for a, (lo, hi) in s.bounds.items():
        try:
            v = env.atom(a)
        except Unknown:
            n_skip += 1
            continue
        n_ev += 1
        if (lo is not None and v < lo) or (hi is not None and v > hi):
            return 'atom %s = %d outside [%s, %s]' % (s.atoms.pstr({(a,): 1}), v, lo, hi), n_ev, n_skip
    for fq, ent in s.forms.items():
        lo, hi, excl = ent
        try:
            v = env.poly(pthaw(fq))
        except Unknown:
            n_skip += 1
            continue
        n_ev += 1
        if (lo is not None and v < lo) or (hi is not None and v > hi) or v in excl:
            return 'form %s = %d outside [%s, %s] \\ %s' % (s.atoms.pstr(pthaw(fq))[:120], v, lo, hi, sorted(excl)[:4]), n_ev, n_skip
    for a, (m, r) in s.cong.items():
        try:
            v = env.atom(a)
        except Unknown:
            n_skip += 1
            continue
        n_ev += 1
        if m and (v - r) % m != 0:
            return 'atom %s = %d not = %d mod %d' % (s.atoms.pstr({(a,): 1}), v, r, m), n_ev, n_skip
    for a, p in s.subst.items():
        try:
            v1 = env.atom(a, use_subst=False)
            v2 = env.poly(p)
        except Unknown:
            n_skip += 1
            continue
        n_ev += 1
        if v1 != v2:
            return 'substitution %s := %s but %d != %d' % (s.atoms.pstr({(a,): 1}), s.atoms.pstr(p)[:100], v1, v2), n_ev, n_skip
    for a, (fp, mod) in s.modrep.items():
        try:
            v1 = env.atom(a)
            v2 = env.poly(pthaw(fp))
        except Unknown:
            n_skip += 1
            continue
        n_ev += 1
        if (v1 - v2) % mod != 0:
            return 'modrep of %s' % s.atoms.pstr({(a,): 1}), n_ev, n_skip
    return None, n_ev, n_skip


WILD = ('?',)


def plain(env, v):
    """value as nested python data; WILD where it cannot be evaluated"""
    if isinstance(v, Int):
        try:
            return env.poly(v.p) if env is not None else None
        except Unknown:
            return WILD
    if isinstance(v, Agg):
        return (v.kind, v.variant) + tuple(plain(env, f) for f in v.fields)
    if isinstance(v, ByRef):
        return plain(env, v.v)
    if isinstance(v, str) or v is None or isinstance(v, (int, bool)):
        return v
    return WILD


def compatible(a, b):
    if a == WILD or b == WILD:
        return True
    if isinstance(a, tuple) and isinstance(b, tuple):
        return len(a) == len(b) and all(compatible(x, y) for x, y in zip(a, b))
    return a == b


def has_wild(a):
    return a == WILD or (isinstance(a, tuple) and any(has_wild(x) for x in a))


# ----------------------------------------------------------------------------- capture of the symbolic runs
CAPT = []
_orig_call_root = Interp.call_root
_orig_explore = Interp.explore


def _call_root(self, state, fn, args, gsubst=None):
    self._cap = {'fn': fn, 'args': list(args), 'gsubst': gsubst, 'st0': state.clone()}
    return _orig_call_root(self, state, fn, args, gsubst)


def _explore(self, state):
    outs = _orig_explore(self, state)
    cap = getattr(self, '_cap', None)
    if cap is not None and CAPT is not None:
        CAPT.append((self, cap, outs))
        self._cap = None
    return outs


# ----------------------------------------------------------------------------- sampling of concrete points
def sample_value(rnd, lo, hi, cong):
    cands = [lo, hi, lo + 1, hi - 1, 0, 1, -1, 2, -2, 5, 10, -10, 15, 25, (lo + hi) // 2]
    for k in (1, 2, 3, 9, 17, 18, 19, 37, 38):
        cands += [10 ** k, -(10 ** k), 10 ** k + 1, 10 ** k - 1, 5 * 10 ** k, 15 * 10 ** (k - 1) if k else 15]
    for k in (8, 16, 32, 52, 53, 63, 64, 65, 96, 126, 127):
        cands += [2 ** k, 2 ** k - 1, 2 ** k + 1, -(2 ** k)]
    r = rnd.random()
    if r < 0.4:
        v = rnd.choice(cands)
    elif r < 0.7:
        v = rnd.randint(lo, hi)
    else:
        span = max((hi - lo).bit_length(), 1)
        v = lo + rnd.getrandbits(rnd.randint(1, span))
        if rnd.random() < 0.5:
            v = hi - (v - lo)
    v = max(lo, min(hi, v))
    if cong:
        m, r_ = cong
        if m > 1:
            v -= (v - r_) % m
            if v < lo:
                v += m
    return v


def sample_point(rnd, st0):
    syms = [(a, d[1]) for a, d in enumerate(st0.atoms.desc) if d[0] == 'sym' and a in st0.bounds]
    for _ in range(300):
        x0 = {}
        for a, name in syms:
            lo, hi = st0.bounds[a]
            if a in st0.subst:
                continue
            x0[name] = sample_value(rnd, lo, hi, st0.cong.get(a))
        env = Env(st0.atoms, x0, None, st0)
        # substituted symbols
        ok = True
        for a, name in syms:
            if a in st0.subst:
                try:
                    x0[name] = env.poly(st0.subst[a])
                except Unknown:
                    ok = False
        if not ok:
            continue
        env = Env(st0.atoms, x0, None, st0)
        bad, _, _ = check_facts(env, st0)
        if bad is None:
            return x0
    return None


def concretise(env, v):
    if isinstance(v, Int):
        return K(env.poly(v.p), v.ty)
    if isinstance(v, Agg):
        return Agg(v.kind, v.variant, [concretise(env, f) for f in v.fields])
    if isinstance(v, ByRef):
        return ByRef(concretise(env, v.v))
    if isinstance(v, SliceVal):
        raise Unknown('slice argument')
    if isinstance(v, absint.EnumSym):
        raise Unknown('symbolic enum argument')
    return v


def concrete_run(db, I0, cap, x0, mode_idx, raw=None):
    opts = Opts(summaries={rounding.default_mode_fn(db)['id']: rounding.summ_default_mode}, mode=mode_idx, max_paths=64, profile=I0.opts.profile)
    opts.precision = I0.opts.precision
    I = Interp(db, opts)
    I.MAX_UNROLL = 10 ** 6
    st = I.new_state()
    st.decomp_depth = 2
    env = Env(cap['st0'].atoms, x0, None, cap['st0'])
    if raw is not None:
        from fpsa.poly import pconst, pfreeze
        opts.byte_positions = True
        L = len(raw)
        for k, b in enumerate(raw):
            st.bounds[st.atoms.get(('byteat', pfreeze(pconst(L - k))))] = (b, b)
        args = [SliceVal(K(L, 'usize'), a.tag) if isinstance(a, SliceVal) else concretise(env, a) for a in cap['args']]
    else:
        args = [concretise(env, a) for a in cap['args']]
    # the concrete run uses its own atom table: values are constants, nothing is shared
    _orig_call_root(I, st, cap['fn'], args, cap['gsubst'])
    outs = _orig_explore(I, st)
    if len(outs) != 1 or outs[0].kind not in ('ret', 'panic'):
        raise Unknown('concrete run: %s' % [(o.kind, str(o.value)[:80]) for o in outs][:3])
    o = outs[0]
    return o.kind, (plain_concrete(o.state, o.value) if o.kind == 'ret' else None)


def plain_concrete(s, v):
    if isinstance(v, Int):
        lo, hi = s.itv(v)
        return lo if lo == hi else WILD
    if isinstance(v, Agg):
        return (v.kind, v.variant) + tuple(plain_concrete(s, f) for f in v.fields)
    if isinstance(v, ByRef):
        return plain_concrete(s, v.v)
    if isinstance(v, str) or v is None or isinstance(v, (int, bool)):
        return v
    return WILD


def norm_plain(p):
    """forget representation differences that do not matter: DecAgg vs Agg is already one kind; bool as int"""
    if isinstance(p, bool):
        return int(p)
    if isinstance(p, tuple):
        return tuple(norm_plain(x) for x in p)
    return p


def check_capture(db, rnd, I0, cap, outs, npoints, stats, report):
    st0 = cap['st0']
    mode_names = rounding.mode_names(db)
    # (B) is only meaningful when the symbolic run used no contract summaries: a summary may fail non-deterministically (an overflow exit whose
    # condition is a note, not a fact), so a 'consistent' failure outcome is then an over-approximation, not a claim
    check_b = set(I0.opts.summaries) <= {rounding.default_mode_fn(db)['id']}
    if any(isinstance(a, SliceVal) for a in cap['args']):
        check_b = True      # parser: contract A is deterministic once its run lengths and value terms are defined from the string
    is_str = any(isinstance(a, SliceVal) for a in cap['args'])
    for _ in range(npoints):
        raw = None
        if is_str:
            import conformance
            raw = conformance.gen_literal(rnd).encode()
            x0 = {'len': len(raw)}
        else:
            x0 = sample_point(rnd, st0)
        if x0 is None:
            stats['no-point'] += 1
            return
        if I0.opts.mode is not None:
            midx = I0.opts.mode
        else:
            midx = rnd.choice(sorted(mode_names))
        mname = mode_names[midx]
        try:
            kind0, val0 = concrete_run(db, I0, cap, x0, midx, raw)
        except Unknown as u:
            stats['ref-unknown'] += 1
            if os.environ.get('ABSCOVER_VERBOSE'):
                print('   ref-unknown %s %s: %s' % (cap['fn']['id'], x0, str(u)[:200]))
            continue
        except Exception as e:          # Stop etc.
            stats['ref-unknown'] += 1
            if os.environ.get('ABSCOVER_VERBOSE'):
                print('   ref-error %s %s: %s %s' % (cap['fn']['id'], x0, type(e).__name__, str(e)[:200]))
            continue
        val0 = norm_plain(val0)
        stats['points'] += 1
        covered = False
        for o in outs:
            env = Env(o.state.atoms, x0, mname, o.state, raw)
            if raw is not None and o.kind != 'unknown':
                if define_parser_atoms(env, o.state) is not None:
                    continue            # refuted by its scanner events
            if o.kind == 'unknown':
                covered = True          # an incomplete analysis claims nothing
                continue
            bad, n_ev, n_skip = check_facts(env, o.state)
            stats['facts'] += n_ev
            stats['facts-skipped'] += n_skip
            if bad is not None:
                continue
            if o.kind != kind0:
                if n_skip == 0 and check_b:
                    # all facts hold at x0, nothing unknown, yet the concrete run behaves differently
                    stats['B-mismatch'] += 1
                    report.append('B %s x0=%s mode=%s: outcome %s fully consistent, concrete run: %s %s' % (cap['fn']['id'], x0, mname, o.kind, kind0, str(val0)[:120]))
                continue
            if o.kind == 'panic':
                covered = True
                continue
            v = norm_plain(plain(env, o.value))
            if compatible(v, val0):
                covered = True
            elif n_skip == 0 and check_b and not has_wild(v):
                stats['B-mismatch'] += 1
                report.append('B %s x0=%s%s mode=%s: consistent outcome returns %s, concrete run %s' % (cap['fn']['id'], x0, (' input %r' % raw) if raw is not None else '', mname, str(v)[:160], str(val0)[:160]))
        if not covered:
            stats['A-uncovered'] += 1
            report.append('A %s x0=%s mode=%s: no abstract outcome covers the concrete behaviour %s %s (outcomes: %s)'
                          % (cap['fn']['id'], x0, mname, kind0, str(val0)[:120], [o.kind for o in outs][:8]))


def work_parser(arg):
    """the one exploration of str_to_dec shared by the value and the grammar clause of C06, against generated literals"""
    npoints, seed = arg
    global CAPT
    db = get_db()
    rnd = random.Random(seed)
    from fpsa.specs import c06
    stats = {k: 0 for k in ('captures', 'points', 'facts', 'facts-skipped', 'A-uncovered', 'B-mismatch', 'ref-unknown', 'no-point', 'job-errors')}
    report = []
    Interp.call_root = _call_root
    Interp.explore = _explore
    CAPT = []
    c06.setup_thresholds(db)
    c06.explore_parser(db)
    caps = CAPT
    CAPT = None
    for (I0, cap, outs) in caps:
        stats['captures'] += 1
        check_capture(db, rnd, I0, cap, outs, npoints, stats, report)
    return 'c06', stats, report


def work(arg):
    spec, jobs, npoints, seed = arg
    if spec == 'c06':
        return work_parser((npoints, seed))
    global CAPT
    db = get_db()
    rnd = random.Random(seed)
    mod = importlib.import_module('fpsa.specs.' + spec)
    stats = {k: 0 for k in ('captures', 'points', 'facts', 'facts-skipped', 'A-uncovered', 'B-mismatch', 'ref-unknown', 'no-point', 'job-errors')}
    report = []
    Interp.call_root = _call_root
    Interp.explore = _explore
    for j in jobs:
        CAPT = []
        try:
            mod.run_job(j)
        except BaseException as e:
            stats['job-errors'] += 1
            continue
        caps = CAPT
        CAPT = None
        for (I0, cap, outs) in caps:
            stats['captures'] += 1
            try:
                check_capture(db, rnd, I0, cap, outs, npoints, stats, report)
            except Unknown:
                stats['ref-unknown'] += 1
    return spec, stats, report


class FakeRep:
    """collects the job lists the specifications hand to run_jobs"""

    def __init__(self):
        self.only_key = None
        self.jobs = []
        self.extra = {}
        self.configs = []

    def __getattr__(self, name):
        return lambda *a, **k: None


def job_lists(spec, tier='quick'):
    mod = importlib.import_module('fpsa.specs.' + spec)
    got = []

    def fake_run_jobs(rep, modname, jobs, nproc=None, chunk=None):
        if modname == mod.__name__:
            got.extend(list(jobs))
    saved = mod.run_jobs
    mod.run_jobs = fake_run_jobs
    try:
        try:
            mod.run(FakeRep(), tier)
        except BaseException:
            pass
    finally:
        mod.run_jobs = saved
    return got


def main():
    import multiprocessing as mp
    args = sys.argv[1:]
    specs, njobs, npoints, seed = SPECS, 24, 6, 1
    i = 0
    while i < len(args):
        if args[i] == '--specs':
            specs = args[i + 1].split(','); i += 2
        elif args[i] == '--jobs':
            njobs = int(args[i + 1]); i += 2
        elif args[i] == '--points':
            npoints = int(args[i + 1]); i += 2
        elif args[i] == '--seed':
            seed = int(args[i + 1]); i += 2
        else:
            i += 1
    get_db()
    rnd = random.Random(seed)
    tasks = []
    for spec in specs:
        if spec == 'c06':
            for k in range(8):
                tasks.append(('c06', None, max(npoints * njobs // 8, 1), rnd.randrange(10 ** 9)))
            continue
        jobs = job_lists(spec)
        jobs = [j for j in jobs if not (isinstance(j, tuple) and j and j[0] == 'dep')]
        rnd.shuffle(jobs)
        jobs = jobs[:njobs]
        # a few jobs per task so that all cores are used
        for k in range(0, len(jobs), 3):
            tasks.append((spec, jobs[k:k + 3], npoints, rnd.randrange(10 ** 9)))
    t0 = time.time()
    ctx = mp.get_context('fork')
    with ctx.Pool(min(16, os.cpu_count() or 4)) as pool:
        res = pool.map(work, tasks, chunksize=1)
    tot = {}
    rep = []
    for spec, stats, report in res:
        d = tot.setdefault(spec, {k: 0 for k in stats})
        for k, v in stats.items():
            d[k] += v
        rep += report
    keys = ['captures', 'points', 'facts', 'facts-skipped', 'A-uncovered', 'B-mismatch', 'ref-unknown', 'no-point', 'job-errors']
    print('%-5s ' % 'spec' + ' '.join('%13s' % k for k in keys))
    for spec in specs:
        if spec in tot:
            print('%-5s ' % spec + ' '.join('%13d' % tot[spec][k] for k in keys))
    print('%-5s ' % 'total' + ' '.join('%13d' % sum(d[k] for d in tot.values()) for k in keys))
    print('wall %.0fs' % (time.time() - t0))
    for r in rep[:40]:
        print('UNSOUND?', r[:600])
    return 1 if rep else 0


if __name__ == '__main__':
    sys.exit(main())
