#!/usr/bin/env python3
"""Self-test of the checkers (both ways): applies each mutant of mutants.json (and each seeded change of ../seeded/*/patch.diff)
to a scratch copy of /repo outside /repo and /verif, runs the quick checks with FPDEC_REPO=<copy>, and compares the set of
alarming checks with the expectation. The scratch copy and its build output are removed afterwards.
usage: run_mutants.py [--seeded | --refactors] [--only id[,id]] [--checks C01,C02] [--expected-only]
(--expected-only: a mutant with an expectation is run against the expected checks only)"""
import json, os, shutil, subprocess, sys, tempfile

HERE = os.path.dirname(os.path.abspath(__file__))
VERIF = os.path.dirname(HERE)
REPO = '/repo'


def checks():
    return [c['property_id'] for c in json.load(open(os.path.join(VERIF, 'MANIFEST.json')))['checks']]


def run_checks(tree, which):
    alarms = []
    broken = []
    for c in which:
        env = dict(os.environ, FPDEC_REPO=tree)
        p = subprocess.run([os.path.join(VERIF, 'check'), c, '--tier', 'quick'], cwd=VERIF, env=env, stdout=subprocess.PIPE, stderr=subprocess.STDOUT, text=True)
        if 'VIOLATION property=' in p.stdout:
            alarms.append(c)
        elif p.returncode != 0:
            broken.append(c)
    return alarms, broken


def main():
    args = sys.argv[1:]
    only = None
    which = checks()
    seeded = '--seeded' in args
    for i, a in enumerate(args):
        if a == '--only':
            only = set(args[i + 1].split(','))
        if a == '--checks':
            which = args[i + 1].split(',')
    items = []
    if seeded:
        sd = os.path.join(VERIF, 'seeded')
        for d in sorted(os.listdir(sd)):
            pf = os.path.join(sd, d, 'patch.diff')
            if os.path.exists(pf):
                meta = json.load(open(os.path.join(sd, d, 'meta.json'))) if os.path.exists(os.path.join(sd, d, 'meta.json')) else {}
                items.append({'id': d, 'patch': pf, 'expect': [meta.get('property')] if meta.get('property') else [], 'what': meta.get('what', '')})
    elif '--refactors' in args:
        items = json.load(open(os.path.join(HERE, 'refactors.json')))
        # behaviour-preserving refactorings written by independent sub-agents (whole patches; notes in refactor_patches/*_notes.md)
        rp = os.path.join(HERE, 'refactor_patches')
        for f in sorted(os.listdir(rp)) if os.path.isdir(rp) else []:
            if f.endswith('.diff'):
                items.append({'id': f[:-5], 'patch': os.path.join(rp, f), 'expect': [], 'what': 'agent-written behaviour-preserving refactoring'})
    else:
        items = json.load(open(os.path.join(HERE, 'mutants.json')))
    ok = True
    for m in items:
        if only and m['id'] not in only:
            continue
        tmp = tempfile.mkdtemp(prefix='fpdec-mut-')
        try:
            subprocess.check_call(['rsync', '-a', '--exclude', 'target', '--exclude', '.git', REPO + '/', tmp + '/'])
            if 'patch' in m:
                r = subprocess.run(['patch', '-p1', '-s', '-i', m['patch']], cwd=tmp)
                if r.returncode != 0:
                    print('%-10s PATCH DOES NOT APPLY' % m['id'])
                    ok = False
                    continue
            else:
                p = os.path.join(tmp, m['file'])
                t = open(p).read()
                if m['old'] not in t:
                    print('%-10s PATTERN NOT FOUND (tree changed?)' % m['id'])
                    ok = False
                    continue
                open(p, 'w').write(t.replace(m['old'], m['new']) if m.get('all') else t.replace(m['old'], m['new'], 1))
            sel = which
            if '--expected-only' in args and m.get('expect'):
                sel = [c for c in which if c in m['expect']]
            alarms, broken = run_checks(tmp, sel)
            exp = set(x for x in m.get('expect', []) if x in which)
            good = exp <= set(alarms) and (bool(exp) or not alarms) and not broken
            ok = ok and good
            print('%-10s %-4s alarms=%-28s expected>=%-14s %s%s' % (m['id'], 'ok' if good else 'FAIL', ','.join(alarms) or '-', ','.join(sorted(exp)) or '(silent)', m.get('what', '')[:70],
                                                                  (' BROKEN:' + ','.join(broken)) if broken else ''))
        finally:
            shutil.rmtree(tmp, ignore_errors=True)
    return 0 if ok else 1


if __name__ == '__main__':
    sys.exit(main())
