#!/bin/bash
# usage: try_patch.sh <patch.diff> [checks...]  - applies the patch to a scratch copy of /repo and runs the quick checks (default: all); prints the alarming / broken checks
pf=$(realpath "$1"); shift
here=$(cd "$(dirname "$0")/.." && pwd)
tmp=$(mktemp -d -p /tmp fpdec-try-XXXX); trap 'rm -rf "$tmp"' EXIT
rsync -a --exclude target --exclude .git /repo/ "$tmp/" && (cd "$tmp" && patch -p1 -s -i "$pf") || { echo "PATCH DOES NOT APPLY: $pf"; exit 2; }
checks="$@"; [ -z "$checks" ] && checks=$(python3 -c "import json;print(' '.join(c['property_id'] for c in json.load(open('$here/MANIFEST.json'))['checks']))")
alarms=""; broken=""
for c in $checks; do
  out=$(cd "$here" && FPDEC_REPO=$tmp ./check $c --tier quick 2>&1); rc=$?
  if echo "$out" | grep -q "VIOLATION property="; then alarms="$alarms $c"; echo "== $c ALARM"; echo "$out" | grep -A3 "VIOLATION" | sed -n 2,4p | cut -c1-400
  elif [ $rc -ne 0 ]; then broken="$broken $c"; echo "== $c BROKEN"; echo "$out" | tail -3 | cut -c1-300; fi
done
echo "RESULT $(basename $pf): alarms:[$alarms ] broken:[$broken ]"
