#!/bin/bash
# usage: intake_seed.sh <PROP> <suffix> [checks...]   e.g. intake_seed.sh C14 b C14 C17
# copies /tmp/seedwt/<PROP>.out into seeded/<PROP>-<suffix>, confirms it with verify_seed.sh, runs the given checks (default: all) on a scratch copy
p=$1; sfx=$2; shift 2
here=$(cd "$(dirname "$0")/.." && pwd)
d=$here/seeded/$p-$sfx
mkdir -p "$d" && cp /tmp/seedwt/$p.out/patch.diff /tmp/seedwt/$p.out/seed_demo.rs /tmp/seedwt/$p.out/notes.md "$d/" || exit 2
bash "$here/selftest/verify_seed.sh" "$d" | tail -1
tmp=$(mktemp -d -p /tmp fpdec-intake-XXXX); trap 'rm -rf "$tmp"' EXIT
rsync -a --exclude target --exclude .git /repo/ "$tmp/" && (cd "$tmp" && patch -p1 -s -i "$d/patch.diff") || { echo "patch does not apply"; exit 1; }
checks="$@"; [ -z "$checks" ] && checks=$(python3 -c "import json;print(' '.join(c['property_id'] for c in json.load(open('$here/MANIFEST.json'))['checks']))")
alarms=""
for c in $checks; do
  out=$(cd "$here" && FPDEC_REPO=$tmp ./check $c --tier quick 2>&1)
  if echo "$out" | grep -q "VIOLATION property="; then alarms="$alarms $c"; echo "== $c ALARM"; echo "$out" | grep -A3 "VIOLATION" | sed -n 2,4p | cut -c1-300; else echo "== $c silent ($(echo "$out" | grep tier= | cut -c1-80))"; fi
done
echo "ALARMS:$alarms"
