#!/bin/bash
# usage: verify_seed.sh <dir with patch.diff and seed_demo.rs>
# (set SEED_PROFILE=--release for demonstrations that only show in the release profile)
# Confirms on a scratch copy of /repo: (1) the patched tree compiles and the existing suite passes,
# (2) the demonstration fails with the patch, (3) it passes without it. The copy is removed afterwards.
d=$(realpath "$1"); tmp=$(mktemp -d -p /tmp fpdec-seed-XXXX); trap 'rm -rf "$tmp"' EXIT
rsync -a --exclude target --exclude .git /repo/ "$tmp/" || exit 2
cd "$tmp" || exit 2
patch -p1 -s -i "$d/patch.diff" || { echo "RESULT patch-does-not-apply"; exit 1; }
export CARGO_NET_OFFLINE=true CARGO_TARGET_DIR="$tmp/target"
suite=$(cargo test --workspace --offline --no-fail-fast 2>&1 | grep -E "^test result" | awk '{p+=$4; f+=$6} END {print p" passed "f" failed"}')
cp "$d/seed_demo.rs" tests/seed_demo.rs
with=$(cargo test $SEED_PROFILE --offline --test seed_demo 2>&1 | grep -E "^test result" | head -1)
patch -p1 -R -s -i "$d/patch.diff"
without=$(cargo test $SEED_PROFILE --offline --test seed_demo 2>&1 | grep -E "^test result" | head -1)
echo "RESULT suite-with-patch: $suite | demo-with-patch: $with | demo-without-patch: $without"
