#!/usr/bin/env python3
"""Conformance selftest of the abstract semantics (a test of the TOOL, not part of any verdict).

The MIR of the library is interpreted by fpsa.absint on CONCRETE inputs (every argument a point interval, no summaries except
the thread's rounding mode) and the value / failure it computes is compared with what the compiled library really returns for the same
inputs.  A difference means a transfer function or a callee model of the interpreter does not describe rustc's semantics - exactly the
trusted base every evidence file names.  An 'imprecise' answer (the interpreter forks or returns a non-point value for concrete inputs)
is counted separately: it is a completeness gap, not an unsoundness.

usage: conformance.py [--n N] [--seed S] [--ops op,op,...] [--keep]
  1. writes N cases per operation family (edge-biased random operands) to a scratch directory,
  2. copies /repo (FPDEC_REPO) there, adds tests/conf_gen.rs, runs it once with cargo (dev profile, offline) -> reference results,
  3. interprets each case, compares, prints a summary; exit 1 on any mismatch.  The scratch directory is removed.
"""
import os
import random
import shutil
import struct
import subprocess
import sys
import tempfile
import time

HERE = os.path.dirname(os.path.abspath(__file__))
sys.path.insert(0, os.path.dirname(HERE))
sys.setrecursionlimit(10000)

M = 2 ** 127 - 1
MODES = ['Round05Up', 'RoundCeiling', 'RoundDown', 'RoundFloor', 'RoundHalfDown', 'RoundHalfEven', 'RoundHalfUp', 'RoundUp']

RUST = r'''
use core::str::FromStr;
use fpdec::*;
use std::io::Write;
use std::panic::catch_unwind;

fn mode(i: &str) -> RoundingMode {
    [RoundingMode::Round05Up, RoundingMode::RoundCeiling, RoundingMode::RoundDown, RoundingMode::RoundFloor,
     RoundingMode::RoundHalfDown, RoundingMode::RoundHalfEven, RoundingMode::RoundHalfUp, RoundingMode::RoundUp][i.parse::<usize>().unwrap()]
}
fn i(s: &str) -> i128 { s.parse::<i128>().unwrap() }
fn d(c: &str, n: &str) -> Decimal { Decimal::new_raw(i(c), n.parse::<u8>().unwrap()) }
fn sd(x: Decimal) -> String { format!("dec {} {}", x.coefficient(), x.n_frac_digits()) }
fn so(x: Option<Decimal>) -> String { match x { Some(v) => format!("some {}", sd(v)), None => "none".to_string() } }
fn soi(x: Option<i128>) -> String { match x { Some(v) => format!("some int {}", v), None => "none".to_string() } }
fn sop(x: Option<(i128, i128)>) -> String { match x { Some((a, b)) => format!("some pair {} {}", a, b), None => "none".to_string() } }
fn unhex(s: &str) -> String {
    let b: Vec<u8> = (0..s.len() / 2).map(|k| u8::from_str_radix(&s[2 * k..2 * k + 2], 16).unwrap()).collect();
    String::from_utf8(b).unwrap()
}

fn eval(f: &[&str]) -> String {
    match f[0] {
        "add" => sd(d(f[1], f[2]) + d(f[3], f[4])),
        "sub" => sd(d(f[1], f[2]) - d(f[3], f[4])),
        "mul" => { RoundingMode::set_default(mode(f[5])); sd(d(f[1], f[2]) * d(f[3], f[4])) }
        "div" => { RoundingMode::set_default(mode(f[5])); sd(d(f[1], f[2]) / d(f[3], f[4])) }
        "rem" => sd(d(f[1], f[2]) % d(f[3], f[4])),
        "checked_add" => so(d(f[1], f[2]).checked_add(d(f[3], f[4]))),
        "checked_sub" => so(d(f[1], f[2]).checked_sub(d(f[3], f[4]))),
        "checked_mul" => { RoundingMode::set_default(mode(f[5])); so(d(f[1], f[2]).checked_mul(d(f[3], f[4]))) }
        "checked_div" => { RoundingMode::set_default(mode(f[5])); so(d(f[1], f[2]).checked_div(d(f[3], f[4]))) }
        "checked_rem" => so(d(f[1], f[2]).checked_rem(d(f[3], f[4]))),
        "mul_rounded" => { RoundingMode::set_default(mode(f[6])); sd(d(f[1], f[2]).mul_rounded(d(f[3], f[4]), f[5].parse::<u8>().unwrap())) }
        "div_rounded" => { RoundingMode::set_default(mode(f[6])); sd(d(f[1], f[2]).div_rounded(d(f[3], f[4]), f[5].parse::<u8>().unwrap())) }
        "round" => { RoundingMode::set_default(mode(f[4])); sd(d(f[1], f[2]).round(f[3].parse::<i8>().unwrap())) }
        "checked_round" => { RoundingMode::set_default(mode(f[4])); so(d(f[1], f[2]).checked_round(f[3].parse::<i8>().unwrap())) }
        "quantize" => { RoundingMode::set_default(mode(f[5])); sd(d(f[1], f[2]).quantize(d(f[3], f[4]))) }
        "cmp" => format!("int {}", match d(f[1], f[2]).partial_cmp(&d(f[3], f[4])) { Some(o) => o as i8 as i128, None => 99 }),
        "eq" => format!("int {}", (d(f[1], f[2]) == d(f[3], f[4])) as u8),
        "ratio" => { let (a, b) = d(f[1], f[2]).as_integer_ratio(); format!("pair {} {}", a, b) }
        "floor" => sd(d(f[1], f[2]).floor()),
        "ceil" => sd(d(f[1], f[2]).ceil()),
        "trunc" => sd(d(f[1], f[2]).trunc()),
        "fract" => sd(d(f[1], f[2]).fract()),
        "abs" => sd(d(f[1], f[2]).abs()),
        "neg" => sd(-d(f[1], f[2])),
        "magnitude" => format!("int {}", d(f[1], f[2]).magnitude()),
        "to_f64" => format!("int {}", f64::from(d(f[1], f[2])).to_bits()),
        "to_f32" => format!("int {}", f32::from(d(f[1], f[2])).to_bits()),
        "from_f64" => match Decimal::try_from(f64::from_bits(f[1].parse::<u64>().unwrap())) { Ok(v) => format!("ok {}", sd(v)), Err(e) => format!("err {:?}", e) },
        "from_f32" => match Decimal::try_from(f32::from_bits(f[1].parse::<u32>().unwrap())) { Ok(v) => format!("ok {}", sd(v)), Err(e) => format!("err {:?}", e) },
        "to_i128" => match i128::try_from(d(f[1], f[2])) { Ok(v) => format!("ok int {}", v), Err(e) => format!("err {:?}", e) },
        "to_i64" => match i64::try_from(d(f[1], f[2])) { Ok(v) => format!("ok int {}", v), Err(e) => format!("err {:?}", e) },
        "to_u8" => match u8::try_from(d(f[1], f[2])) { Ok(v) => format!("ok int {}", v), Err(e) => format!("err {:?}", e) },
        "parse" => match fpdec_core::str_to_dec(&unhex(f[1])) { Ok((c, e)) => format!("ok pair {} {}", c, e), Err(e) => format!("err {:?}", e) },
        "from_str" => match Decimal::from_str(&unhex(f[1])) { Ok(v) => format!("ok {}", sd(v)), Err(e) => format!("err {:?}", e) },
        "k_div_rounded" => format!("int {}", fpdec_core::i128_div_rounded(i(f[1]), i(f[2]), Some(mode(f[3])))),
        "k_shifted_rounded" => soi(fpdec_core::i128_shifted_div_rounded(i(f[1]), f[2].parse::<u8>().unwrap(), i(f[3]), Some(mode(f[4])))),
        "k_muldiv_rounded" => soi(fpdec_core::i128_mul_div_ten_pow_rounded(i(f[1]), i(f[2]), f[3].parse::<u8>().unwrap(), Some(mode(f[4])))),
        "k_shifted_floor" => sop(fpdec_core::i128_shifted_div_mod_floor(i(f[1]), f[2].parse::<u8>().unwrap(), i(f[3]))),
        "k_i256_floor" => sop(fpdec_core::i256_div_mod_floor(i(f[1]), i(f[2]), i(f[3]))),
        "k_mul_pow_ten" => soi(fpdec_core::checked_mul_pow_ten(i(f[1]), f[2].parse::<u8>().unwrap())),
        _ => "unknown-op".to_string(),
    }
}

#[test]
fn conf_gen() {
    let inp = std::fs::read_to_string(std::env::var("CONF_IN").unwrap()).unwrap();
    let mut out = std::fs::File::create(std::env::var("CONF_OUT").unwrap()).unwrap();
    std::panic::set_hook(Box::new(|_| {}));
    for line in inp.lines() {
        let owned: Vec<String> = line.split(' ').map(|s| s.to_string()).collect();
        let r = catch_unwind(move || { let f: Vec<&str> = owned.iter().map(|s| s.as_str()).collect(); eval(&f) }).unwrap_or_else(|_| "panic".to_string());
        writeln!(out, "{}", r).unwrap();
    }
}
'''


# ----------------------------------------------------------------------------- case generation
def coeffs(rnd, lim=M):
    edge = [0, 1, -1, 2, -2, 5, 9, 10, -10, 11, 99, 100, 101, M, -M, M - 1, -(M - 1), M // 2, M // 10, M // 10 + 1, -(M // 10) - 1,
            2 ** 64, 2 ** 64 - 1, 2 ** 64 + 1, -(2 ** 64), 2 ** 63, 2 ** 96, 2 ** 126, -(2 ** 126), 2 ** 126 + 1, 10 ** 18, 10 ** 19, 10 ** 37, 10 ** 38, -(10 ** 38),
            10 ** 38 - 1, 5 * 10 ** 17, 5 * 10 ** 18 + 1, 25, 15, 35, 45, -15, -25, 125, 12345678901234567890, 5 ** 27, -(5 ** 40)]
    r = rnd.random()
    if r < 0.35:
        v = rnd.choice(edge)
    elif r < 0.55:
        v = rnd.choice((1, -1)) * rnd.getrandbits(rnd.randint(1, 127))
    elif r < 0.75:
        k = rnd.randint(0, 38)
        v = rnd.choice((1, -1)) * (10 ** k * rnd.randint(1, 99) + rnd.choice((0, 0, 1, -1, 5 * 10 ** max(k - 1, 0))))
    elif r < 0.9:
        v = rnd.choice((1, -1)) * (2 ** rnd.randint(0, 126) + rnd.choice((-1, 0, 1)))
    else:
        v = rnd.randint(-1000, 1000)
    return max(-lim, min(lim, v))


def scale(rnd):
    return rnd.choice([0, 0, 1, 2, 3, 9, 17, 18, rnd.randint(0, 18)])


def gen_cases(rnd, n, ops):
    cases = []

    def add(op, *args):
        if ops is None or op in ops:
            cases.append((op,) + tuple(str(a) for a in args))
    for _ in range(n):
        x, p, y, q = coeffs(rnd), scale(rnd), coeffs(rnd), scale(rnd)
        md = rnd.randrange(8)
        for op in ('add', 'sub', 'rem', 'checked_add', 'checked_sub', 'checked_rem', 'cmp', 'eq'):
            add(op, x, p, y, q)
        for op in ('mul', 'div', 'checked_mul', 'checked_div'):        # quantize is a generic two-call forwarder (decided by shape in C04): not interpreted here
            add(op, x, p, y, q, md)
        nn = rnd.choice([0, 1, 2, 9, 17, 18, 19, rnd.randint(0, 18)])
        add('mul_rounded', x, p, y, q, nn, md)
        add('div_rounded', x, p, y, q, nn, md)
        nr = rnd.choice([0, 1, -1, p, p - 1, p + 1, -20, -38, -39, 18, 19, rnd.randint(-40, 20)])
        add('round', x, p, nr, md)
        add('checked_round', x, p, nr, md)
        for op in ('ratio', 'floor', 'ceil', 'trunc', 'fract', 'abs', 'neg', 'magnitude', 'to_f64', 'to_f32', 'to_i128', 'to_i64', 'to_u8'):
            add(op, x, p)
        # floats: random bit patterns with edge exponents
        e64 = rnd.choice([0, 1, 2047, 1023, 1022, 1023 + 52, 1023 + 53, 1023 + 126, 1023 + 127, 1023 - 60, 1023 - 64, rnd.randint(1, 2046), rnd.randint(950, 1160)])
        f64 = (rnd.getrandbits(1) << 63) | (e64 << 52) | rnd.choice([0, 1, 2 ** 52 - 1, 2 ** 51, rnd.getrandbits(52), rnd.getrandbits(20) << 32])
        add('from_f64', f64)
        e32 = rnd.choice([0, 1, 255, 127, 126, 127 + 23, 127 + 24, 127 + 100, 127 - 60, rnd.randint(1, 254), rnd.randint(60, 230)])
        f32 = (rnd.getrandbits(1) << 31) | (e32 << 23) | rnd.choice([0, 1, 2 ** 23 - 1, 2 ** 22, rnd.getrandbits(23)])
        add('from_f32', f32)
        # literals
        s = gen_literal(rnd)
        add('parse', s.encode().hex() or '')
        add('from_str', s.encode().hex() or '')
        # kernels
        yk = y if y != 0 else 3
        add('k_div_rounded', x, yk, md)
        sh = rnd.randint(0, 38)
        add('k_shifted_rounded', x, sh, yk, md)
        add('k_shifted_floor', x, sh, yk)
        add('k_muldiv_rounded', x, y, rnd.randint(0, 38), md)
        add('k_i256_floor', x, y, yk if rnd.random() < 0.5 else coeffs(rnd) or 7)
        add('k_mul_pow_ten', x, rnd.randint(0, 40))
    return cases


def gen_literal(rnd):
    r = rnd.random()
    digs = lambda k: ''.join(rnd.choice('0123456789') for _ in range(k))
    if r < 0.1:
        return rnd.choice(['', '+', '-', '.', 'e', '1e', '1e+', '.e1', '0.', '.0', '0e0', '1e005', '1.5e-3', '-.5', '+1.', '1..2', '1e1e1', ' 1', '1 ', '1_0', '0x10',
                           '340282366920938463463374607431768211456', '170141183460469231731687303715884105727', '-170141183460469231731687303715884105728',
                           '170141183460469231731687303715884105728', '0.0000000000000000001', '0.000000000000000000', '1e-18', '1e-19', '1e38', '1e39', '0e99', '0e100'])
    s = rnd.choice(['', '', '+', '-'])
    ip = rnd.choice(['', '0', '00', digs(rnd.randint(1, 8)), digs(rnd.randint(8, 17)), digs(rnd.randint(17, 41))])
    fp = rnd.choice([None, '', '0', digs(rnd.randint(1, 8)), digs(rnd.randint(8, 20)), '0' * rnd.randint(1, 20) + digs(2)])
    s += ip
    if fp is not None:
        s += '.' + fp
    if rnd.random() < 0.4:
        s += rnd.choice('eE') + rnd.choice(['', '+', '-']) + rnd.choice(['', '0', '00', digs(1), digs(2), '0' + digs(1), digs(3)])
    if rnd.random() < 0.08:
        pos = rnd.randint(0, len(s))
        s = s[:pos] + rnd.choice('x +-.e_/:') + s[pos:]
    return s


# ----------------------------------------------------------------------------- reference run
def reference(repo, cases, keep=False):
    tmp = tempfile.mkdtemp(prefix='fpdec-conf-', dir='/tmp')
    try:
        subprocess.check_call(['rsync', '-a', '--exclude', 'target', '--exclude', '.git', repo.rstrip('/') + '/', tmp + '/src_copy/'])
        cp = tmp + '/src_copy'
        open(cp + '/tests/conf_gen.rs', 'w').write(RUST)
        open(tmp + '/in.txt', 'w').write(''.join(' '.join(c) + '\n' for c in cases))
        env = dict(os.environ, CARGO_NET_OFFLINE='true', CARGO_TARGET_DIR=tmp + '/target', CONF_IN=tmp + '/in.txt', CONF_OUT=tmp + '/out.txt')
        r = subprocess.run(['cargo', 'test', '--offline', '--test', 'conf_gen'], cwd=cp, env=env, stdout=subprocess.PIPE, stderr=subprocess.STDOUT, text=True)
        if r.returncode != 0 or not os.path.exists(tmp + '/out.txt'):
            print(r.stdout[-3000:])
            raise SystemExit('conformance: the reference generator did not build / run')
        out = open(tmp + '/out.txt').read().split('\n')[:-1]
        if len(out) != len(cases):
            raise SystemExit('conformance: %d reference results for %d cases' % (len(out), len(cases)))
        return out
    finally:
        if not keep:
            shutil.rmtree(tmp, ignore_errors=True)


# ----------------------------------------------------------------------------- interpretation
class Imprecise(Exception):
    pass


def interp_case(db, case):
    from fpsa.absint import Interp, Opts, Agg, Int, K, SliceVal, ByRef
    from fpsa.harness import (DEC, T_ADD, T_SUB, T_MUL, T_DIV, T_REM, T_CADD, T_CSUB, T_CMUL, T_CDIV, T_CREM, T_DIVR, T_MULR, dec_layout, dec_parts, opt_parts,
                              res_parts, variant_name, find_root)
    from fpsa import rounding
    from fpsa.rounding import RM_ADT, mode_names
    from fpsa.poly import pconst, pfreeze, patom, padd
    from fpsa.specs import c05, c08, c12, c13, c15
    op = case[0]
    a = case[1:]
    midx = None

    def set_mode(k):
        name = MODES[int(k)]
        return [i for i, n in mode_names(db).items() if n == name][0]

    DD = ['Decimal', 'Decimal']
    nargs = None
    byref = False
    if op in ('add', 'sub', 'mul', 'div', 'rem', 'checked_add', 'checked_sub', 'checked_mul', 'checked_div', 'checked_rem', 'mul_rounded', 'div_rounded', 'quantize', 'cmp', 'eq'):
        tr = {'add': (T_ADD, 'add'), 'sub': (T_SUB, 'sub'), 'mul': (T_MUL, 'mul'), 'div': (T_DIV, 'div'), 'rem': (T_REM, 'rem'), 'checked_add': (T_CADD, 'checked_add'),
              'checked_sub': (T_CSUB, 'checked_sub'), 'checked_mul': (T_CMUL, 'checked_mul'), 'checked_div': (T_CDIV, 'checked_div'), 'checked_rem': (T_CREM, 'checked_rem'),
              'mul_rounded': (T_MULR, 'mul_rounded'), 'div_rounded': (T_DIVR, 'div_rounded'), 'quantize': ('fpdec::quantize::Quantize', 'quantize'),
              'cmp': (c08.T_PORD, 'partial_cmp'), 'eq': (c08.T_PEQ, 'eq')}[op]
        if op == 'quantize':
            c = [f for f in db.fns.values() if f['impl'] and f['impl']['trait'] == 'fpdec::quantize::Quantize' and f['name'] == 'quantize']
            fn = c[0] if len(c) == 1 else None
        else:
            fn = find_root(db, tr[0], DD, tr[1])
        byref = op in ('cmp', 'eq')
        kind = 'dd'
        extra = a[4:]
        if op in ('mul_rounded', 'div_rounded'):
            nargs = [K(int(extra[0]), 'u8')]
            midx = set_mode(extra[1])
        elif extra:
            midx = set_mode(extra[0])
    elif op in ('round', 'checked_round'):
        fn = find_root(db, 'fpdec_core::rounding::Round', ['Decimal'], op)
        kind = 'd'
        nargs = [K(int(a[2]), 'i8')]
        midx = set_mode(a[3])
    elif op == 'ratio':
        fn = find_root(db, 'fpdec::as_integer_ratio::AsIntegerRatio', ['Decimal'], 'as_integer_ratio')
        kind = 'd'
    elif op in ('floor', 'ceil', 'trunc', 'fract', 'abs', 'neg', 'magnitude'):
        fn = c15.find_fn(db, op)
        kind = 'd'
        byref = fn['locals'][1].startswith('&')
    elif op in ('to_f64', 'to_f32'):
        fn = c12.root(db, op[3:])
        kind = 'd'
    elif op in ('from_f64', 'from_f32'):
        fn = c13.root(db, op[5:])
        kind = 'f'
    elif op in ('to_i128', 'to_i64', 'to_u8'):
        fn = find_root(db, 'core::convert::TryFrom', [op[3:], 'Decimal'], 'try_from')
        kind = 'd'
    elif op in ('parse', 'from_str'):
        fn = db.fns['fpdec_core::parser::str_to_dec'] if op == 'parse' else find_root(db, 'core::str::traits::FromStr', ['Decimal'], 'from_str')
        kind = 's'
    elif op.startswith('k_'):
        name = {'k_div_rounded': 'fpdec_core::rounding::i128_div_rounded', 'k_shifted_rounded': 'fpdec_core::rounding::i128_shifted_div_rounded',
                'k_muldiv_rounded': 'fpdec_core::rounding::i128_mul_div_ten_pow_rounded', 'k_shifted_floor': 'fpdec_core::i128_shifted_div_mod_floor',
                'k_i256_floor': 'fpdec_core::i256_div_mod_floor', 'k_mul_pow_ten': 'fpdec_core::powers_of_ten::checked_mul_pow_ten'}[op]
        fn = db.fns[name]
        kind = 'k'
    else:
        raise SystemExit('conformance: unknown op %s' % op)
    if fn is None:
        raise SystemExit('conformance: root of %s not found' % op)

    summ = {rounding.default_mode_fn(db)['id']: rounding.summ_default_mode}
    opts = Opts(summaries=summ, mode=midx, max_paths=64)
    if kind == 's':
        opts.byte_positions = True
    I = Interp(db, opts)
    I.MAX_UNROLL = 10 ** 6          # concrete inputs: every loop simply runs
    st = I.new_state()
    st.decomp_depth = 2

    def dec(c, n):
        ci, si = dec_layout(DEC)
        f = [None, None]
        f[ci] = K(int(c), 'i128')
        f[si] = K(int(n), 'u8')
        return Agg(DEC, 0, f)
    if kind == 'dd':
        args = [dec(a[0], a[1]), dec(a[2], a[3])]
        if byref:
            args = [ByRef(x) for x in args]
        args += nargs or []
    elif kind == 'd':
        x = dec(a[0], a[1])
        args = [ByRef(x) if byref else x] + (nargs or [])
    elif kind == 'f':
        fl = op[5:]
        args = [Agg('float:' + fl, None, (K(int(a[0]), 'u64' if fl == 'f64' else 'u32'),))]
    elif kind == 's':
        raw = bytes.fromhex(a[0]) if a else b''
        L = len(raw)
        for k, b in enumerate(raw):
            at = st.atoms.get(('byteat', pfreeze(pconst(L - k))))
            st.bounds[at] = (b, b)
        args = [SliceVal(K(L, 'usize'), 'str')]
    else:
        tys = fn['locals'][1:fn['arg_count'] + 1]
        args = []
        for t, v in zip(tys, a):
            if 'RoundingMode' in t:
                args.append(Agg('core::option::Option', 1, (Agg(RM_ADT, set_mode(v), ()),)))
            else:
                args.append(K(int(v), t))
    I.call_root(st, fn, args)
    outs = I.explore(st)
    if len(outs) != 1:
        raise Imprecise('%d outcomes: %s' % (len(outs), [o.kind for o in outs][:6]))
    o = outs[0]
    if o.kind == 'panic':
        return 'panic'
    if o.kind != 'ret':
        raise Imprecise('%s: %s' % (o.kind, str(o.value)[:200]))
    return show(db, o.state, o.value, op)


def show(db, s, v, op=''):
    from fpsa.absint import Agg, Int
    from fpsa.harness import dec_parts, opt_parts, res_parts, variant_name

    def pt(x):
        lo, hi = s.itv(x)
        if lo != hi:
            raise Imprecise('value %r not a point' % (x,))
        return lo
    if isinstance(v, Int):
        return 'int %d' % pt(v)
    dp = dec_parts(v)
    if dp is not None:
        return 'dec %d %d' % (pt(dp[0]), pt(dp[1]))
    op_ = opt_parts(v)
    if op_ is not None:
        if op == 'cmp':
            return show(db, s, op_[1], op) if op_[0] == 'some' else 'int 99'
        return 'none' if op_[0] == 'none' else 'some ' + show(db, s, op_[1])
    rp = res_parts(v)
    if rp is not None:
        if rp[0] == 'ok':
            return 'ok ' + show(db, s, rp[1])
        e = rp[1]
        return 'err ' + (variant_name(db, e) if isinstance(e, Agg) else str(e))
    if isinstance(v, Agg) and v.kind == 'core::cmp::Ordering':
        return 'int %d' % {0: -1, 1: 0, 2: 1}.get(v.variant, v.variant) if v.variant in (0, 1, 2) and _ord_by_index(db) else 'int %d' % _ord_val(db, v)
    if isinstance(v, Agg) and v.kind == 'tuple' and len(v.fields) == 2:
        return 'pair %d %d' % (pt(v.fields[0]), pt(v.fields[1]))
    if isinstance(v, Agg) and v.kind.startswith('float:'):
        return 'int %d' % pt(v.fields[0])
    if isinstance(v, Agg) and v.kind.startswith('floatcast:'):
        x = pt(v.fields[0])
        if v.kind.endswith('f64'):
            return 'int %d' % struct.unpack('<Q', struct.pack('<d', float(x)))[0]
        return 'int %d' % f32_bits_of_int(x)
    raise Imprecise('cannot render %r' % (v,))


def _ord_by_index(db):
    return False


def _ord_val(db, v):
    adt = db.adts.get(v.kind)
    if adt:
        for var in adt['variants']:
            if var['index'] == v.variant:
                return {'Less': -1, 'Equal': 0, 'Greater': 1}[var['name']]
    return {0: -1, 1: 0, 2: 1}[v.variant]


def f32_bits_of_int(x):
    """bits of (x as f32): round to nearest, ties to even (exact integer arithmetic)"""
    if x == 0:
        return 0
    sgn = 1 if x < 0 else 0
    m = abs(x)
    e = m.bit_length() - 1
    if e > 23:
        sh = e - 23
        q, r = m >> sh, m & ((1 << sh) - 1)
        half = 1 << (sh - 1)
        if r > half or (r == half and (q & 1)):
            q += 1
        if q == 1 << 24:
            q >>= 1
            e += 1
    else:
        q = m << (23 - e)
    return (sgn << 31) | ((e + 127) << 23) | (q - (1 << 23))


def _work(chunk):
    from fpsa.harness import get_db
    db = get_db()
    res = []
    for idx, case in chunk:
        try:
            res.append((idx, 'v', interp_case(db, case)))
        except Imprecise as e:
            res.append((idx, 'i', str(e)[:300]))
        except SystemExit as e:
            res.append((idx, 'x', 'SystemExit %s' % e))
        except Exception as e:       # Stop / analysis limits
            res.append((idx, 'i', '%s: %s' % (type(e).__name__, str(e)[:300])))
    return res


def main():
    import multiprocessing as mp
    args = sys.argv[1:]
    n, seed, ops, keep = 60, 1, None, False
    i = 0
    while i < len(args):
        if args[i] == '--n':
            n = int(args[i + 1]); i += 2
        elif args[i] == '--seed':
            seed = int(args[i + 1]); i += 2
        elif args[i] == '--ops':
            ops = set(args[i + 1].split(',')); i += 2
        elif args[i] == '--keep':
            keep = True; i += 1
        else:
            i += 1
    repo = os.environ.get('FPDEC_REPO', '/repo')
    rnd = random.Random(seed)
    cases = gen_cases(rnd, n, ops)
    t0 = time.time()
    ref = reference(repo, cases, keep)
    print('conformance: %d cases, reference results from the compiled library in %.0fs' % (len(cases), time.time() - t0))
    from fpsa.harness import get_db
    get_db()
    items = list(enumerate(cases))
    chunks = [items[k::64] for k in range(64)]
    with mp.Pool(min(16, os.cpu_count() or 4)) as pool:
        results = [r for ch in pool.map(_work, [c for c in chunks if c]) for r in ch]
    results.sort()
    stats = {}
    mism = []
    for idx, kind, val in results:
        op = cases[idx][0]
        st_ = stats.setdefault(op, [0, 0, 0])
        if kind == 'v':
            if val == ref[idx]:
                st_[0] += 1
            else:
                st_[1] += 1
                mism.append((cases[idx], ref[idx], val))
        elif kind == 'x':
            st_[1] += 1
            mism.append((cases[idx], ref[idx], val))
        else:
            st_[2] += 1
            if os.environ.get('CONF_VERBOSE'):
                print('  imprecise %s -> %s (library: %s)' % (' '.join(cases[idx]), val, ref[idx]))
    print('%-18s %7s %9s %9s' % ('operation', 'agree', 'MISMATCH', 'imprecise'))
    for op in sorted(stats):
        print('%-18s %7d %9d %9d' % (op, *stats[op]))
    tot = [sum(v[k] for v in stats.values()) for k in range(3)]
    print('%-18s %7d %9d %9d' % ('total', *tot))
    for c, r, v in mism[:40]:
        print('MISMATCH %s : library %s, interpreter %s' % (' '.join(c), r, v))
    return 1 if mism else 0


if __name__ == '__main__':
    sys.exit(main())
