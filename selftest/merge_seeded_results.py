#!/usr/bin/env python3
"""usage: merge_seeded_results.py <output of run_mutants.py --seeded>: sets detected_by in seeded/<id>/meta.json to the alarming checks of that run"""
import json, os, re, sys
HERE = os.path.dirname(os.path.abspath(__file__))
for line in open(sys.argv[1]):
    m = re.match(r'^(\S+)\s+(ok|FAIL)\s+alarms=(\S+)', line)
    if not m:
        continue
    sid, _, al = m.groups()
    p = os.path.join(HERE, '..', 'seeded', sid, 'meta.json')
    if not os.path.exists(p):
        continue
    meta = json.load(open(p))
    alarms = [] if al == '-' else al.split(',')
    if alarms and sorted(meta.get('detected_by') or []) != sorted(alarms):
        print(sid, meta.get('detected_by'), '->', alarms)
        meta['detected_by'] = alarms
        meta.pop('silent', None)
        json.dump(meta, open(p, 'w'), indent=1)
