"""C19: the default rounding mode is per thread and starts as HalfEven."""
from ..db import DB
from ..rules import tls


def run(rep, tier):
    rep.level = 'other'
    rep.explanation = (
        'Structural argument over the type-checked program (MIR of all three crates): (1) R-NOSTATIC: no static in any analysed '
        'configuration is writable and shared (every static is #[thread_local], or immutable and Freeze); (2) R-TLS-KEY/INIT: the only '
        'storage of a RoundingMode is one std::thread::LocalKey whose initialiser constructs RoundHalfEven; (3) R-TLS-READ/WRITE/WHO: '
        'only <RoundingMode as Default>::default (returning the cell content through accessor calls, no branch, no literal) and the '
        'inherent setter (storing exactly its parameter) touch that key; (4) R-WHO-CALLS: no library function calls the setter or spawns '
        'threads; (5) R-MODE: every call of a function with an Option<RoundingMode> parameter passes None, the caller\'s own parameter, '
        'or Some(default()). Hence every rounding operation obtains the mode from the calling thread\'s cell; schedules do not enter the argument.')
    configs = [('default', True)] if tier == 'quick' else [('default', True), ('all', True), ('nostd', True), ('core-nostd', False)]
    sites = 0
    for cfg, std in configs:
        db = DB(cfg)
        rep.tree_hash = db.tree_hash
        rep.configs.append(cfg)
        n = tls.run(rep, db, std=std)
        if cfg == 'default':
            sites = n
    rep.floor('R-MODE', 12 if tier == 'quick' else 12)
    rep.floor('R-NOSTATIC', 2)
    rep.trust('std::thread_local! / LocalKey gives each thread its own lazily initialised instance')
    rep.trust('rustc nightly MIR construction and Instance resolution')
    rep.assume('The mode dispatch inside the rounding kernel is decided by C05 (kernel proof), not here')
    rep.extra['mode_call_sites_default_config'] = sites
