"""C12: Decimal -> f64 / f32 is correctly rounded (nearest, ties to even), sign of d, zero -> +0.0.

<fN as From<Decimal>>::from is straight-line code.  One cell per (float type, scale p, bit length b of |coeff|, sign): in a cell
leading_zeros, the normalisation shifts and the divisor 10^p << s are concrete, quot / rem are truncating-division terms with a
constant divisor, the two binades the quotient can fall into (adj) fork, and the three extra bits / sticky bit fork into concrete
values.  Oracle (from the statement, IEEE 754 binary interchange format): with v = |coeff| / 10^p and e the integer with
2^e <= v < 2^(e+1) (decided on the path), the result's bit pattern without the sign bit must be
    q + ((e + bias - 1) << F),   q = RoundHalfEven(v * 2^(F - e))  in [2^F, 2^(F+1)]
(q = 2^(F+1) carries into the exponent field: the same formula), evaluated by the same fact-based RoundSpec oracle as C05; the sign
bit is set iff coeff < 0.  Integral values (p = 0) and zero use the primitive cast `coeff as fN`, whose rounding is Rust's (trusted).
"""
from ..absint import Interp, Opts, Agg, Int, K, Opaque, ZERO, NEG, POS, NONNEG, NONPOS
from ..harness import (dec_coeff, M, dec_val, poly_eq, show_outcome, show_poly, get_db, run_jobs)
from ..db import span_str
from ..poly import padd, pscale, pconst, pneg
from ..rounding import check_rounded

FMT = {'f64': (52, 1023, 64), 'f32': (23, 127, 32)}       # fraction bits, exponent bias, width


def root(db, fl):
    for f in db.fns.values():
        im = f.get('impl') or {}
        if im.get('trait') == 'core::convert::From' and (im.get('trait_args') or [None, None])[:2] == [fl, 'Decimal'] and f['name'] == 'from':
            return f
    return None


def run_job(job):
    fl, p, b, sgn = job
    db = get_db()
    key = '%s;p=%d;bits=%s;%s' % (fl, p, b, sgn)
    fn = root(db, fl)
    if fn is None:
        return [('B-TOFLOAT', key, False, 'impl From<Decimal> for %s not found' % fl, None)]
    F, bias, width = FMT[fl]
    I = Interp(db, Opts(max_paths=4000))
    st = I.new_state()
    st.decomp_depth = 2
    st.tactics = {'mult': [], 'relb': [], 'lp': 1}        # polyhedral bounds for the linear combinations of the quotient / remainder facts
    if b == 0:
        lo = hi = 0
    elif sgn == 'pos':
        lo, hi = 2 ** (b - 1), min(2 ** b - 1, M)
    else:
        lo, hi = -min(2 ** b - 1, M), -(2 ** (b - 1))
    d = dec_val(st, 'x', p, lo, hi)
    X = dec_coeff(d).p
    absx = X if sgn == 'pos' else pneg(X)
    I.call_root(st, fn, [d])
    outs = I.explore(st)
    bad = []
    for o in outs:
        s = o.state
        if o.kind != 'ret':
            bad.append(show_outcome(o)[:300])
            continue
        v = o.value
        if p == 0 or b == 0:
            # primitive cast of the exact coefficient
            if not (isinstance(v, Agg) and v.kind == 'floatcast:' + fl and isinstance(v.fields[0], Int) and poly_eq(s, v.fields[0].p, X)):
                bad.append('integral / zero value must be converted by the primitive cast of the coefficient: %r' % (v,))
            continue
        if not (isinstance(v, Agg) and v.kind == 'float:' + fl and isinstance(v.fields[0], Int)):
            bad.append('result is not built from a bit pattern: %r' % (v,))
            continue
        bits = v.fields[0].p
        mag = padd(bits, pconst(2 ** (width - 1)), -1) if sgn == 'neg' else bits
        lo_m, hi_m = s.range_of(mag)
        if lo_m is None or lo_m < 0 or hi_m >= 2 ** (width - 1):
            bad.append('sign bit is not [coeff < 0]: bits - sign in [%s, %s]' % (lo_m, hi_m))
            continue
        # binade of v = |x| / 10^p decided on the path
        e = None
        num_lo, num_hi = abs(lo if sgn == 'pos' else hi), abs(hi if sgn == 'pos' else lo)
        den = 10 ** p
        elo = (num_lo // den).bit_length() - 1 if num_lo >= den else -((den // num_lo).bit_length())
        for cand in range(elo - 1, elo + 4):
            # 2^cand <= v  <=>  |x| * 2^max(-cand,0) >= den * 2^max(cand,0) ;  v < 2^(cand+1) likewise
            # (both sides scaled by 2^192 so that the facts about the shifted operands combine with integer multipliers)
            lhs_lo = pscale(padd(pscale(absx, 2 ** max(-cand, 0)), pconst(den * 2 ** max(cand, 0)), -1), 2 ** 192)
            lhs_hi = pscale(padd(pscale(absx, 2 ** max(-cand - 1, 0)), pconst(den * 2 ** max(cand + 1, 0)), -1), 2 ** 192)
            if s.sign(lhs_lo) <= NONNEG and s.sign(lhs_hi) <= NEG:
                e = cand
                break
        if e is None:
            bad.append('the path does not determine the binade of |x| / 10^%d' % p)
            continue
        Q = padd(mag, pconst((e + bias - 1) * 2 ** F), -1)
        N = pscale(absx, 2 ** max(F - e, 0))
        D = pconst(den * 2 ** max(e - F, 0))
        ok, msg = check_rounded(s, Q, N, D, 'RoundHalfEven')
        if not ok:
            bad.append('significand %s (binade e=%d) is not RoundHalfEven(|x| * 2^%d / 10^%d): %s' % (show_poly(s, Q)[:100], e, F - e, p, msg[:200]))
            continue
        qlo, qhi = s.range_of(Q)
        if qlo is None or qlo < 2 ** F or qhi > 2 ** (F + 1):
            bad.append('rounded significand outside [2^%d, 2^%d]: [%s, %s]' % (F, F + 1, qlo, qhi))
    if not outs:
        bad.append('no outcome')
    seen = []
    for x in bad:
        if x not in seen:
            seen.append(x)
    return [('B-TOFLOAT', key, not seen, '; '.join(seen[:3]) or 'paths=%d' % len(outs), span_str(fn.get('span')) if seen else None)]


def job_list(tier):
    jobs = []
    for fl in ('f64', 'f32'):
        ps = range(1, 19)            # every scale in both tiers (a table entry or shift constant for one scale must not hide from the quick tier)
        for p in ps:
            bs = range(1, 128) if tier == 'thorough' else sorted(set((1, 2, 3, 10, 23, 24, 25, 26, 52, 53, 54, 55, 56, 63, 64, 65, 100, 126, 127)) | set(range(4, 128, 7)))
            for b in bs:
                for sgn in ('pos', 'neg'):
                    jobs.append((fl, p, b, sgn))
            jobs.append((fl, p, 0, 'pos'))
        for b in (0, 1, 64, 127):
            for sgn in ('pos', 'neg'):
                jobs.append((fl, 0, b, sgn))
    return jobs


def run(rep, tier):
    db = get_db()
    rep.tree_hash = db.tree_hash
    rep.configs = ['default']
    jobs = job_list(tier)
    run_jobs(rep, __name__, jobs)
    rep.floor('B-TOFLOAT', len(jobs))
    rep.assume('the primitive casts `i128 as f64` / `i128 as f32` used for integral values and zero round to nearest, ties to even, and map 0 to +0.0 (Rust language semantics, trusted)')
    rep.explanation = ('Per float type x scale 1..18 x bit length 1..127 of |coeff| x sign the straight-line MIR of <fN as From<Decimal>>::from is interpreted with a symbolic coefficient: leading_zeros and all '
                       'shifts are concrete in a cell, quot / rem are truncating-division terms by the constant 10^p << s, the binade of the quotient and the guard / sticky bits fork. On every path the '
                       'binade e of |x| / 10^p is decided by the path\'s facts and the returned bit pattern minus the sign bit equals RoundHalfEven(|x| * 2^(F-e) / 10^p) + ((e + bias - 1) << F) - the IEEE 754 '
                       'encoding of the nearest float, ties to even, including the carry into the exponent field - evaluated by the fact-based RoundSpec oracle of C05; the sign bit is [coeff < 0]. '
                       'Integral values and zero are converted by the primitive cast of the exact coefficient.')
    rep.trust('rustc nightly MIR; absint transfer functions and callee models (leading_zeros, shifts, from_bits); IEEE 754 binary32 / binary64 encoding as stated in the oracle; Rust\'s int-to-float casts')
