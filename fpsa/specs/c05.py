"""C05: round / checked_round implement all eight rounding modes exactly; the integer rounding kernel.

K  round_quot(quot, rem, divisor, mode)        = RoundSpec(mode, quot + rem/divisor)   for 0 <= rem < divisor
F  i128_div_mod_floor(x, y)                    = floor quotient / remainder
R  i128_div_rounded(x, y, mode)                = RoundSpec(mode, x / y)                (proved by inlining F and K)
then Decimal::round / checked_round per (p, n) cell using the proved summary R.
"""
from ..absint import Interp, Opts, Agg, Int, K, OPTION, none, some, NEG, ZERO, POS, NONNEG, NONPOS
from ..harness import (dec_coeff, M, SCALES_ALL, dec_val, dec_parts, opt_parts, poly_eq, show_outcome, show_poly, get_db, run_jobs, notes_of)
from ..db import span_str
from ..poly import padd, pscale, pconst, pmul, pneg, pfreeze, patom
from .. import rounding
from ..rounding import RM_ADT, MODES, check_rounded, round_inc, Undecided, expect_rnd, mode_names

CORE = 'fpdec_core::rounding::'
MIN = -2**127
MAX = 2**127 - 1


def core_fn(db, name):
    f = db.fns.get(name)
    if f is None:
        raise SystemExit('fpsa: %s not found (fail closed)' % name)
    return f


def kernel_fn(db, required=True):
    """the rounding kernel in the form of lemma K: the function of fpdec-core taking (i128, u128, u128, Option<RoundingMode>).
    Lemma K is an internal lemma about a private function: when no function has that shape (the kernel was restructured) the lemma has no subject;
    everything public is then still proved with the kernel inlined (R-DIV-ROUNDED, W-WIDE-ROUNDED, B-ROUND)."""
    c = [f for f in db.fns.values() if f['crate'] == 'fpdec_core' and f['arg_count'] == 4
         and f['locals'][1:4] == ['i128', 'u128', 'u128'] and 'RoundingMode>' in f['locals'][4]]
    if len(c) != 1:
        if not required and not c:
            return None
        raise SystemExit('fpsa: rounding kernel (i128, u128, u128, Option<RoundingMode>) not found uniquely: %s (fail closed)' % [f['id'] for f in c])
    return c[0]


def mode_arg(db, mode, via_none):
    idx = [i for i, n in mode_names(db).items() if n == mode][0]
    if via_none:
        return none(), idx
    return some(Agg(RM_ADT, idx, ())), idx


def job_kernel(db, job):
    _, mode, via_none = job
    fn = kernel_fn(db)
    marg, midx = mode_arg(db, mode, via_none)
    I = Interp(db, Opts(summaries={rounding.default_mode_fn(db)['id']: rounding.summ_default_mode}, mode=midx))
    st = I.new_state()
    quot = st.sym('quot', MIN, MAX, 'i128')
    rem = st.sym('rem', 0, MAX - 1, 'u128')
    div = st.sym('divisor', 1, MAX, 'u128')
    st.assume(padd(rem.p, div.p, -1), NEG)
    I.call_root(st, fn, [quot, rem, div, marg])
    outs = I.explore(st)
    bad = []
    N = padd(pmul(quot.p, div.p), rem.p)
    classes = set()
    for o in outs:
        s = o.state
        v = o.value
        none_path = False
        if o.kind == 'ret' and opt_parts(v) is not None:
            # kernel returning Option<i128>: None only as "quot + 1 does not fit"
            op_ = opt_parts(v)
            if op_[0] == 'none':
                ov = notes_of(o, 'overflows')
                none_path = len(ov) == 1 and poly_eq(s, dict(ov[0][1]), padd(quot.p, pconst(1)))
                if not none_path:
                    bad.append('None that is not the overflow of quot + 1')
                    continue
            else:
                v = op_[1]
        if o.kind == 'ret' and isinstance(v, Int) and not none_path:
            ok, msg = check_rounded(s, v.p, N, div.p, mode)
            if not ok:
                bad.append('%s [facts: rem sign %s, 2rem-div sign %s, quot sign %s]' % (msg, sorted(s.sign(rem.p)), sorted(s.sign(padd(pscale(rem.p, 2), div.p, -1))), sorted(s.sign(quot.p))))
            classes.add(msg)
        elif none_path or (o.kind == 'panic' and o.value == 'overflow' and (o.info or {}).get('term') == pfreeze(s.norm(padd(quot.p, pconst(1))))):
            # quot + 1 does not fit: permitted only if the oracle increments and quot is i128::MAX
            try:
                inc = round_inc(mode, s, quot.p, rem.p, div.p)
            except Undecided as u:
                bad.append('overflow edge: %s undecided' % u)
                continue
            if inc != 1:
                bad.append('overflow of quot+1 on a path where the oracle does not increment')
        else:
            bad.append(show_outcome(o))
    return [('K-ROUND-QUOT', '%s;%s' % (mode, 'None->default()' if via_none else 'Some(mode)'), not bad,
             '; '.join(bad[:3]) or 'paths=%d all equal RoundSpec(%s)' % (len(outs), mode), span_str(fn.get('span')) if bad else None)]


Y_CELLS = {'y>=2': (2, MAX, MIN, MAX), 'y=1': (1, 1, MIN, MAX), 'y=-1': (-1, -1, -MAX, MAX), 'y<=-2': (MIN, -2, MIN, MAX)}


def job_floor(db, job):
    _, cell = job
    fn = core_fn(db, 'fpdec_core::i128_div_mod_floor')
    I = Interp(db, Opts())
    st = I.new_state()
    ylo, yhi, xlo, xhi = Y_CELLS[cell]
    x, y = st.sym('x', xlo, xhi), st.sym('y', ylo, yhi)
    I.call_root(st, fn, [x, y])
    outs = I.explore(st)
    bad = []
    for o in outs:
        s = o.state
        v = o.value
        if o.kind != 'ret' or not (isinstance(v, Agg) and len(v.fields) == 2):
            bad.append(show_outcome(o))
            continue
        Q, R = v.fields
        if not poly_eq(s, padd(pmul(Q.p, y.p), R.p), x.p):
            bad.append('q*y + r != x: q=%s r=%s' % (show_poly(s, Q.p), show_poly(s, R.p)))
        if ylo > 0:
            ok = s.sign(R.p) <= NONNEG and s.sign(padd(R.p, y.p, -1)) <= NEG
        else:
            ok = s.sign(R.p) <= NONPOS and s.sign(padd(R.p, y.p, -1)) <= POS
        if not ok:
            bad.append('remainder %s not in range (sign r %s, sign r-y %s)' % (show_poly(s, R.p), sorted(s.sign(R.p)), sorted(s.sign(padd(R.p, y.p, -1)))))
    if not outs:
        bad.append('no outcome')
    return [('F-DIV-MOD-FLOOR', cell, not bad, '; '.join(bad[:3]) or 'paths=%d: x = q*y + r with r in [0,y) resp. (y,0]' % len(outs), span_str(fn.get('span')) if bad else None)]




def job_div_rounded(db, job):
    _, mode, via_none, ycell = job
    fn = core_fn(db, CORE + 'i128_div_rounded')
    marg, midx = mode_arg(db, mode, via_none)
    I = Interp(db, Opts(summaries={rounding.default_mode_fn(db)['id']: rounding.summ_default_mode}, mode=midx))
    st = I.new_state()
    ylo, yhi, xlo, xhi = Y_CELLS[ycell]
    x, y = st.sym('x', xlo, xhi), st.sym('y', ylo, yhi)
    I.call_root(st, fn, [x, y, marg])
    outs = I.explore(st)
    bad = []
    if ylo > 0:
        N, D = x.p, y.p
    else:
        N, D = pneg(x.p), pneg(y.p)
    for o in outs:
        s = o.state
        if o.kind == 'ret' and isinstance(o.value, Int):
            ok, msg = check_rounded(s, o.value.p, N, D, mode)
            if not ok:
                bad.append(msg)
        else:
            bad.append(show_outcome(o))
    if not outs:
        bad.append('no outcome')
    return [('R-DIV-ROUNDED', '%s;%s;%s' % (mode, 'None' if via_none else 'Some', ycell), not bad,
             '; '.join(bad[:3]) or 'paths=%d all equal RoundSpec(%s, x/y)' % (len(outs), mode), span_str(fn.get('span')) if bad else None)]


def job_round(db, job):
    _, meth, p, n, xcls, cmode = job
    fn = db.find_impl_fn('fpdec_core::rounding::Round', ['Decimal'], meth)
    if fn is None:
        raise SystemExit('fpsa: impl Round for Decimal::%s not found (fail closed)' % meth)
    if cmode is None:
        I = Interp(db, Opts(summaries=rounding.caller_summaries(db)))
    else:
        # far-below-half region: the helpers are inlined under one concrete thread mode
        midx = [i for i, nm in mode_names(db).items() if nm == cmode][0]
        I = Interp(db, Opts(summaries={rounding.default_mode_fn(db)['id']: rounding.summ_default_mode}, mode=midx))
    st = I.new_state()
    lo, hi = {'any': (-M, M), 'neg': (-M, -1), 'zero': (0, 0), 'pos': (1, M)}[xcls]
    d = dec_val(st, 'x', p, lo, hi)
    x = dec_coeff(d)
    I.call_root(st, fn, [d, K(n, 'i8')])
    outs = I.explore(st)
    checked = meth == 'checked_round'
    bad = []
    s_ = p - n
    n_val = 0
    for o in outs:
        s = o.state
        v = o.value
        failure = None
        if o.kind == 'panic':
            if checked:
                bad.append('checked_round can panic: %s' % show_outcome(o))
                continue
            failure = (o.info or {}).get('term')
            if o.value == 'DecimalError::InternalOverflow':
                failure = 'explicit'
            elif o.value != 'overflow' or failure is None:
                bad.append('panic that is not an overflow signal: %s' % show_outcome(o))
                continue
        elif o.kind != 'ret':
            bad.append(show_outcome(o))
            continue
        elif checked:
            op_ = opt_parts(v)
            if op_ is None:
                bad.append('not an Option: %s' % show_outcome(o))
                continue
            if op_[0] == 'none' and s_ > 38 and n < p:
                failure = 'explicit'
            elif op_[0] == 'none':
                ov = notes_of(o, 'overflows')
                if len(ov) != 1:
                    bad.append('None without a recorded overflow')
                    continue
                failure = ov[0][1]
            else:
                v = op_[1]
        if n >= p:
            # unchanged
            dp = dec_parts(v) if failure is None else None
            if dp is None or not poly_eq(s, dp[0].p, x.p) or (dp[1].lo, dp[1].hi) != (p, p):
                bad.append('n >= p must return the value unchanged: %s' % show_outcome(o))
            n_val += 1
            continue
        mult = 10 ** (-n) if n < 0 else 1
        if failure is not None:
            # permitted only as "the rounded value scaled by 10^-n does not fit"
            if n >= 0:
                bad.append('failure for n >= 0: %s' % show_outcome(o))
                continue
            if s_ > 38:
                # RoundSpec(x/10^s) is -1, 0 or 1: a failure is right iff it is non-zero and 10^-n is not representable
                ok0, _m = check_rounded(s, pconst(0), x.p, pconst(10 ** s_), cmode)
                if ok0 or -n <= 38:
                    bad.append('under %s: overflow signal although the rounded value %s is representable' % (cmode, '0' if ok0 else '+-10^%d' % -n))
                continue
            if failure == 'explicit':
                ov = notes_of(o, 'overflows')
                if len(ov) != 1:
                    bad.append('InternalOverflow without a recorded overflow: %s' % show_outcome(o))
                    continue
                failure = ov[0][1]
            if s_ <= 38:
                ok, msg = expect_rnd(s, dict(failure), x.p, pconst(10 ** s_), 'thread', mult, raw=True)
                if not ok:
                    bad.append('overflow signal on a term that is not Rnd(x/10^%d)*10^%d: %s' % (s_, -n, msg))
            continue
        dp = dec_parts(v)
        if dp is None:
            bad.append('not a Decimal: %s' % show_outcome(o))
            continue
        c, nfd = dp
        n_val += 1
        want_scale = max(n, 0)
        if s_ <= 38:
            ok, msg = expect_rnd(s, c.p, x.p, pconst(10 ** s_), 'thread', mult)
            if not ok:
                # a zero result may be normalised
                bad.append(msg)
            if (nfd.lo, nfd.hi) != (want_scale, want_scale):
                bad.append('scale [%s,%s], expected %d' % (nfd.lo, nfd.hi, want_scale))
        else:
            # |x| < 10^s / 2: RoundSpec under the concrete mode of this cell, decided from the sign of x
            mode = cmode
            cp = s.norm(c.p)
            if (nfd.lo, nfd.hi) != (0, 0):
                bad.append('scale [%s,%s], expected 0' % (nfd.lo, nfd.hi))
            if -n <= 38:
                if any(cv % mult for cv in cp.values()):
                    bad.append('%s: coefficient %s not a multiple of 10^%d' % (mode, show_poly(s, cp), -n))
                else:
                    V = {m_: cv // mult for m_, cv in cp.items()}
                    ok, msg = check_rounded(s, V, x.p, pconst(10 ** s_), mode)
                    if not ok:
                        bad.append('under %s: %s' % (mode, msg))
            else:
                ok, msg = check_rounded(s, cp, x.p, pconst(10 ** s_), mode)
                if not ok:
                    bad.append('under %s (10^%d not representable, an overflow signal is required): %s' % (mode, -n, msg))
    if n_val == 0 and not bad and not (s_ > 38 and outs):
        bad.append('no path returns a value')
    return [('B-ROUND', '%s;p=%d;n=%d;x=%s;mode=%s' % (meth, p, n, xcls, cmode or 'thread'), not bad, '; '.join(bad[:3]) or 'paths=%d' % len(outs), span_str(fn.get('span')) if bad else None)]


def run_job(job):
    db = get_db()
    return {'kernel': job_kernel, 'floor': job_floor, 'divr': job_div_rounded, 'round': job_round}[job[0]](db, job)


def n_values(p, tier):
    if tier == 'thorough':
        return list(range(-128, 128))
    s = {-128, -60, -40, -39, -38, -37, -21, -20, -19, -2, -1, 0, 1, 2, 9, 17, 18, 19, 127, p - 40, p - 39, p - 38, p - 37, p - 20, p - 2, p - 1, p, p + 1}
    return sorted(x for x in s if -128 <= x <= 127)


def run(rep, tier):
    db = get_db()
    rep.tree_hash = db.tree_hash
    rep.configs = ['default']
    jobs = []
    have_kernel = kernel_fn(db, required=False) is not None
    for mode in MODES:
        for via_none in (False, True):
            if have_kernel:
                jobs.append(('kernel', mode, via_none))
            for yc in Y_CELLS:
                jobs.append(('divr', mode, via_none, yc))
    jobs += [('floor', yc) for yc in Y_CELLS]
    scales = SCALES_ALL
    nround = 0
    for meth in ('round', 'checked_round'):
        for p in scales:
            for n in n_values(p, tier):
                if n < p - 38:
                    for xc in ('neg', 'zero', 'pos'):
                        for mode in MODES:
                            jobs.append(('round', meth, p, n, xc, mode))
                            nround += 1
                else:
                    jobs.append(('round', meth, p, n, 'any', None))
                    nround += 1
    run_jobs(rep, __name__, jobs)
    if have_kernel:
        rep.floor('K-ROUND-QUOT', 16)
    else:
        rep.ob('K-ROUND-QUOT', 'no-function-of-the-lemma-shape', True,
               'no fpdec-core function takes (i128, u128, u128, Option<RoundingMode>): lemma K has no subject; the public rounding functions are proved with the kernel inlined')
        rep.assume('lemma K (rounding kernel for ALL quot, rem, divisor) not stated on this tree: the kernel does not have the shape (i128, u128, u128, Option<RoundingMode>); '
                   'i128_div_rounded, the wide rounded divisions and round / checked_round are proved with it inlined')
    rep.floor('R-DIV-ROUNDED', 64)
    rep.floor('F-DIV-MOD-FLOOR', 4)
    rep.floor('B-ROUND', nround)
    rep.explanation = ('(K) the MIR of the rounding kernel is interpreted with symbolic quot, rem, divisor (0 <= rem < divisor) for each of the 8 modes, passed as Some(mode) and '
                       'obtained through None -> default(): on every path the facts established by the kernel\'s own branches (rem = 0, ordering of 2*rem and divisor, sign and '
                       'parity / mod-5 residue of the quotient) must determine the increment the mode table of Appendix A.1 prescribes, and the returned term must be quot + that '
                       'increment. (F),(R) the floor division helper and i128_div_rounded are proved the same way over sign cells of the divisor. round/checked_round are then '
                       'analysed per (p, n) cell with the proved summary R: unchanged for n >= p, Rnd(x/10^(p-n)) [* 10^-n] at scale max(n,0), failure only as overflow of that product; '
                       'for p-n >= 39 the result is checked against RoundSpec for all 8 modes on the sign classes of x.')
    rep.trust('rustc nightly MIR; absint transfer functions; defining identities of Rust integer / and %; mode semantics as tabulated in DESIGN.md Appendix A.1 (Python decimal semantics)')
