"""C02: multiplication is exact up to 18 digits, else correctly rounded (oracle: Appendix A.3).

The rounding helpers are replaced by their proved summaries (R: C05, W: C16), so a result is
compared as the term Rnd[thread](x*y / 10^(p+q-18)) against the oracle's rational.
"""
from ..absint import Interp, Opts, Agg, Int, K, ZERO, NONZERO
from ..harness import (dec_coeff, M, T_MUL, T_CMUL, SCALES_QUICK, SCALES_ALL, dec_val, int_val, dec_parts, opt_parts, poly_eq, show_outcome,
                       show_poly, notes_of, get_db, run_jobs, find_root)
from ..db import INT_TYPES9, span_str
from ..poly import padd, pscale, pconst, pmul, pfreeze
from ..rules import fwd
from .. import rounding
from ..rounding import expect_rnd

OPS = {'mul': (T_MUL, 'mul', False), 'checked_mul': (T_CMUL, 'checked_mul', True)}


def decided(s, p, signs):
    """True if sign(p) within signs, False if disjoint, None if undecided on path s"""
    have = s.sign(p)
    if have <= signs:
        return True
    if not (have & signs):
        return False
    return None


def wide_note_matches(s, o, En, Ed):
    """a 'wide-overflow' note whose rational equals En/Ed"""
    for n in notes_of(o, 'wide-overflow'):
        N, D = dict(n[1]), dict(n[2])
        if n[3] == 'thread' and poly_eq(s, pmul(N, Ed), pmul(En, D)):
            return True
    return False


def run_job(job):
    op, form, ty, p, q = job
    db = get_db()
    trait, meth, checked = OPS[op]
    targs = {'DD': ['Decimal', 'Decimal'], 'DI': ['Decimal', ty], 'ID': [ty, 'Decimal']}[form]
    fn = find_root(db, trait, targs, meth)
    I = Interp(db, Opts(summaries=rounding.all_caller_summaries(db)))
    st = I.new_state()
    if form == 'DD':
        xa, ya = dec_val(st, 'x', p), dec_val(st, 'y', q)
        xc, yc = dec_coeff(xa), dec_coeff(ya)
    elif form == 'DI':
        xa, ya = dec_val(st, 'x', p), int_val(st, 'y', ty)
        xc, yc = dec_coeff(xa), ya
        q = 0
    else:
        xa, ya = int_val(st, 'x', ty), dec_val(st, 'y', q)
        xc, yc = xa, dec_coeff(ya)
        p = 0
    I.call_root(st, fn, [xa, ya])
    outs = I.explore(st)
    X, Y = xc.p, yc.p
    XY = pmul(X, Y)
    bad = []
    n_val = 0
    for o in outs:
        s = o.state
        if o.kind == 'unknown':
            bad.append(show_outcome(o))
            continue
        # which oracle case does this path belong to?
        if form == 'DD':
            zx, zy = decided(s, X, ZERO), decided(s, Y, ZERO)
            oney = decided(s, padd(Y, pconst(10 ** q), -1), ZERO)
            onex = decided(s, padd(X, pconst(10 ** p), -1), ZERO)
            if zx is True or zy is True:
                case = 'zero'
            elif zx is None or zy is None:
                case = None
            elif oney is True:
                case = 'y=1'
            elif oney is None:
                case = None
            elif onex is True:
                case = 'x=1'
            elif onex is None:
                case = None
            else:
                case = 'general'
        else:
            case = 'int'
        if case is None:
            bad.append('path does not decide the short-cut predicates (zero / one): %s' % show_outcome(o))
            continue
        rounded = case == 'general' and p + q > 18
        failure = None
        v = o.value
        if o.kind == 'panic':
            if checked:
                bad.append('checked_mul can panic: %s' % show_outcome(o))
                continue
            if o.value == 'DecimalError::InternalOverflow':
                failure = 'explicit'
            elif o.value == 'overflow' and case == 'int' and (o.info or {}).get('term') is not None and poly_eq(s, dict(o.info['term']), XY):
                failure = 'overflow-xy'
            else:
                bad.append('panic that is not an overflow signal: %s' % show_outcome(o))
                continue
        elif checked:
            op_ = opt_parts(v)
            if op_ is None:
                bad.append('not an Option: %s' % show_outcome(o))
                continue
            if op_[0] == 'none':
                failure = 'none'
            else:
                v = op_[1]
        if failure is not None:
            ovxy = any(poly_eq(s, dict(n[1]), XY) for n in notes_of(o, 'overflows'))
            if case in ('zero', 'y=1', 'x=1'):
                bad.append('failure on the short-cut path %s' % case)
            elif checked and case == 'general' and p + q > 18:
                pass        # checked_mul: None whenever p+q > 18
            elif rounded:
                if not wide_note_matches(s, o, XY, pconst(10 ** (p + q - 18))):
                    bad.append('overflow signal without the rounded product exceeding i128: %s' % show_outcome(o))
            elif failure != 'overflow-xy' and not ovxy:
                bad.append('failure without overflow of x*y: %s' % show_outcome(o))
            continue
        dp = dec_parts(v)
        if dp is None:
            bad.append('not a Decimal: %s' % show_outcome(o))
            continue
        c, nfd = dp
        sc = (nfd.lo, nfd.hi)
        n_val += 1
        if case == 'zero':
            ok = s.itv(c) == (0, 0) and sc == (0, 0)
            exp = '(0, 0)'
        elif case == 'y=1':
            ok = poly_eq(s, c.p, X) and sc == (p, p)
            exp = '(x, p)'
        elif case == 'x=1':
            ok = poly_eq(s, c.p, Y) and sc == (q, q)
            exp = '(y, q)'
        elif case == 'int' or p + q <= 18:
            ok = poly_eq(s, c.p, XY) and sc == (p + q, p + q)
            exp = '(x*y, %d)' % (p + q)
        elif checked:
            ok = False
            exp = 'None (p+q > 18: checked_mul never rounds)'
        else:
            ok, msg = expect_rnd(s, c.p, XY, pconst(10 ** (p + q - 18)), 'thread')
            ok = ok and sc == (18, 18)
            exp = 'Rnd(x*y / 10^%d) at scale 18 [%s]' % (p + q - 18, msg)
        if not ok:
            bad.append('case %s: got (%s, scale %s), expected %s' % (case, show_poly(s, c.p), sc, exp))
    if n_val == 0:
        bad.append('no path returns a value')
    key = '%s;%s;%s;p=%d;q=%d' % (op, form, ty or '-', p, q)
    return [('B-MUL', key, not bad, '; '.join(bad[:3]) or 'paths=%d' % len(outs), span_str(fn.get('span')) if bad else None)]


def run(rep, tier):
    db = get_db()
    rep.tree_hash = db.tree_hash
    rep.configs = ['default']
    scales = SCALES_ALL
    jobs = []
    for op in OPS:
        for p in scales:
            for q in scales:
                jobs.append((op, 'DD', None, p, q))
        for ty in INT_TYPES9:
            for p in (SCALES_QUICK if tier == 'quick' else scales):
                jobs.append((op, 'DI', ty, p, 0))
                jobs.append((op, 'ID', ty, 0, p))
    run_jobs(rep, __name__, jobs)
    rep.floor('B-MUL', len(jobs))
    left = fwd.run_ops(rep, db, [T_MUL, T_CMUL])
    for fn, base, why in left:
        rep.ob('R-FWD', 'default;nonforwarder;%s' % fn['id'], False, 'reference form is not a pure forwarder (%s)' % why)
    fwd.run_assign(rep, db, ['core::ops::arith::MulAssign'])
    rep.floor('R-FWD', 110)
    from . import deps
    deps.run(rep, tier, ('R', 'W-muldiv'))      # proofs of the summaries this check relies on
    rep.explanation = ('Per scale pair (all 361) the MIR of Mul / CheckedMul is interpreted with symbolic coefficients; each path is classified by the facts it established '
                       '(operand zero, operand equal to one, general) and the result is compared with the oracle of Appendix A.3: exact product term x*y at scale p+q, the '
                       'short-cut results, or the term Rnd[thread](x*y / 10^(p+q-18)) at scale 18 (cross-multiplied rationals); failures only as overflow of x*y resp. of the '
                       'rounded product; checked_mul never panics and returns None whenever p+q > 18. Integer forms: exact x*i at the Decimal\'s scale.')
    rep.assume('modulo the summaries R (proved in C05) and W (proved in C16 down to the unsigned 256-bit kernels, Knuth-D included; the relevant proofs are re-run here as DEP-* obligations)')
    rep.assume('dev-profile semantics (overflow checks on); release behaviour is C20')
    rep.trust('rustc nightly MIR; absint transfer functions and callee models')
