"""C20: results do not depend on the build profile; overflow is never silent.

R-PROFILE  every profile-dependent check site (overflow assert, inherit-overflow core call, debug_assert) reached by the
           cells of C01-C16 must have an infeasible failure edge in every cell; a feasible one means
           "panics in dev, continues with a wrapped value in release".  Sites never reached by those cells must be in the
           audited table below (functions whose properties are not decided by this machinery).
R-CONFIG-DIFF  the MIR of every function is identical between the default and the `packed` configuration.
R-UNSAFE   the set of unsafe operations is the audited one; crate fpdec carries deny(unsafe_code).
"""
import json
from ..absint import Interp
from ..harness import get_db, map_jobs, SCALES_ALL, SCALES_QUICK
from ..db import INT_TYPES9, span_str, DB
from ..rules import profile
from .. import mir
from . import c01, c02, c03, c04, c05, c06, c07, c08, c09, c10, c11, c12, c13, c14, c15, c16

MODS = {'c01': c01, 'c02': c02, 'c03': c03, 'c04': c04, 'c05': c05, 'c06': c06, 'c07': c07, 'c08': c08, 'c09': c09, 'c10': c10, 'c11': c11, 'c12': c12, 'c13': c13, 'c14': c14, 'c15': c15, 'c16': c16}

# functions whose profile-dependent sites are NOT decided here (one line of reason each)
AUDITED_PREFIXES = [
    ('fpdec::{impl#0}::new_raw', 'debug_assert on the documented precondition n_frac_digits <= 18 of the doc(hidden) constructor'),
    ('fpdec::num_traits', 'feature num-traits: forwarders checked in C15 thorough'),
    ('fpdec_core::powers_of_ten::mul_pow_ten', 'doc(hidden) unchecked helper, no longer called by non-test code of fpdec (tests only)'),
    ('fpdec_core::adjust_coeffs', 'doc(hidden) helper not called by fpdec (checked_adjust_coeffs is used instead)'),
    ('fpdec_core::u8', 'copied int_log10 helper not used by fpdec'), ('fpdec_core::u16', 'copied int_log10 helper not used by fpdec'),
]


def audited(fn_id):
    for pre, why in AUDITED_PREFIXES:
        if fn_id.startswith(pre):
            return why
    return None


_CALLED = {}


def compile_time_only(db, fid):
    """a private free function or inherent method that no function body calls or mentions (it can then only run during constant evaluation, where an overflow is a compile error, or not at all)"""
    if id(db) not in _CALLED:
        called = set()
        for f in db.fns.values():
            for b in [f] + list(f.get('promoted') or []):
                for bi, t, blk in mir.iter_calls(b):
                    c = mir.callee(t)[0]
                    if c:
                        called.add(c)
        _CALLED[id(db)] = called
    f = db.fns.get(fid)
    base = fid.split('::{closure#')[0]
    fb = db.fns.get(base)
    if fb is None or 'Public' in str(fb.get('vis')) or base in _CALLED[id(db)]:
        return False
    if not fb.get('impl'):
        return True
    # a private inherent method without a caller: dead unless some body mentions it as a function value
    if (fb['impl'] or {}).get('trait'):
        return False
    if ('txt', id(db)) not in _CALLED:
        _CALLED[('txt', id(db))] = {g['id']: str(g['blocks']) + str(g.get('promoted') or '') for g in db.fns.values()}
    return not any(base in txt for gid, txt in _CALLED[('txt', id(db))].items() if gid.split('::{closure#')[0] != base)


def collect(jobs):
    """worker: run spec jobs with the R-PROFILE collectors switched on"""
    execd = set()
    fails = {}
    for spec, j in jobs:
        Interp.PD_EXEC = set()
        Interp.PD_FAIL = []
        try:
            MODS[spec].run_job(j)
        except BaseException as e:      # an analyser crash is reported by the owning property's check; here: no coverage from this job
            pass
        execd |= Interp.PD_EXEC
        for (fid, bb, kind, info, site, root) in Interp.PD_FAIL:
            k = (fid, bb)
            if k not in fails:
                fails[k] = {'kind': kind, 'info': {a: str(b)[:120] for a, b in info.items() if a != 'term'}, 'site': site, 'root': root, 'cell': '%s %s' % (spec, j)}
    Interp.PD_EXEC = None
    Interp.PD_FAIL = None
    return execd, fails


def job_list(tier):
    jobs = []
    sc = SCALES_QUICK if tier == 'quick' else SCALES_ALL
    tys = INT_TYPES9
    for op in c01.OPS:
        for p in sc:
            for q in sc:
                jobs.append(('c01', (op, 'DD', None, p, q)))
        for ty in tys:
            for p in sc:
                jobs.append(('c01', (op, 'DI', ty, p, 0)))
                jobs.append(('c01', (op, 'ID', ty, 0, p)))
    for op in c02.OPS:
        for p in sc:
            for q in sc:
                jobs.append(('c02', (op, 'DD', None, p, q)))
        for ty in tys:
            for p in sc:
                jobs.append(('c02', (op, 'DI', ty, p, 0)))
                jobs.append(('c02', (op, 'ID', ty, 0, p)))
    for op in c03.OPS:
        for p in sc:
            for q in sc:
                jobs.append(('c03', (op, 'DD', None, p, q)))
        for ty in tys:
            for p in (0, 1, 18):
                jobs.append(('c03', (op, 'DI', ty, p, 0)))
                jobs.append(('c03', (op, 'ID', ty, 0, p)))
    for p in sc:
        for q in sc:
            for n in sc:
                jobs.append(('c04', ('div_rounded', 'DD', None, p, q, n)))
                jobs.append(('c04', ('mul_rounded', 'DD', None, p, q, n)))
    for ty in tys:
        for p in (0, 1, 18):
            for n in (0, 1, 18):
                jobs.append(('c04', ('div_rounded', 'DI', ty, p, 0, n)))
                jobs.append(('c04', ('div_rounded', 'ID', ty, 0, p, n)))
        jobs.append(('c04', ('div_rounded', 'II', ty, 0, 0, 0)))
        jobs.append(('c04', ('div_rounded', 'II', ty, 0, 0, 18)))
    for mode in c05.MODES:
        for via_none in (False, True):
            if c05.kernel_fn(get_db(), required=False) is not None:
                jobs.append(('c05', ('kernel', mode, via_none)))
            for yc in c05.Y_CELLS:
                jobs.append(('c05', ('divr', mode, via_none, yc)))
    for yc in c05.Y_CELLS:
        jobs.append(('c05', ('floor', yc)))
    for meth in ('round', 'checked_round'):
        for p in sc:
            for n in c05.n_values(p, 'quick'):
                if n < p - 38:
                    for xc in ('neg', 'zero', 'pos'):
                        jobs.append(('c05', ('round', meth, p, n, xc, 'RoundUp')))
                else:
                    jobs.append(('c05', ('round', meth, p, n, 'any', None)))
    for p in sc:
        for q in sc:
            for kind in ('partial_cmp', 'eq', 'cmp'):
                jobs.append(('c08', (kind, 'DD', None, p, q)))
    for ty in tys:
        for p in sc:
            jobs.append(('c08', ('eq', 'DI', ty, p, 0)))
            jobs.append(('c08', ('partial_cmp', 'DI', ty, p, 0)))
            jobs.append(('c08', ('partial_cmp', 'ID', ty, 0, p)))
    for op in c10.OPS:
        for p in sc:
            for q in sc:
                for xc in ('neg', 'pos'):
                    jobs.append(('c10', (op, 'DD', None, p, q, xc)))
        for ty in tys:
            for p in (0, 1, 18):
                jobs.append(('c10', (op, 'DI', ty, p, 0, 'pos')))
                jobs.append(('c10', (op, 'ID', ty, 0, p, 'any')))
    for ty in INT_TYPES9:
        jobs.append(('c14', ('from', ty, 0)))
    jobs.append(('c14', ('from_u128', 'u128', 0)))
    for ty in c14.TARGETS:
        for p in sc:
            jobs.append(('c14', ('into', ty, p)))
    for name in c15.UNOPS:
        for p in sc:
            jobs.append(('c15', ('unop', name, p)))
    for p in sc:
        jobs.append(('c15', ('magnitude', p, -1, 0)))
        for k in (range(39) if p in (0, 18) else (0, 1, 17, 18, 19, 37, 38)):
            for sgn in (1, -1):
                jobs.append(('c15', ('magnitude', p, k, sgn)))
    for p in (0, 1, 19, 38):
        for sx in ('neg', 'zero', 'pos'):
            for sy in ('neg', 'pos'):
                jobs.append(('c16', ('S', 'shifted', p, sx, sy, None)))
    for sx in ('neg', 'pos'):
        for s2 in ('neg', 'pos'):
            jobs.append(('c16', ('S', 'muldiv', '-', sx, 'pos', s2)))
            for mode in ('RoundHalfEven', 'RoundUp'):
                jobs.append(('c16', ('W', 'muldiv', 19, mode, True, sx, None, s2)))
                jobs.append(('c16', ('W', 'shifted', 19, mode, True, sx, s2, None)))
    # the unsigned kernels (C16 U-KERNEL), the gcd loop and the ratio methods (C09), the parser (C06)
    jobs = [('c16', j) for j in c16.kernel_jobs(tier, dep=(tier == 'quick'))] + jobs
    for e in ((1, 2, 18, 38) if tier == 'quick' else range(1, 39)):
        for xc in ('neg', 'pos'):
            jobs.append(('c09', ('gcd', e, xc)))
    for p in sc:
        for xc in ('neg', 'zero', 'pos'):
            jobs.append(('c09', (p, xc)))
    # formatting: Display with every precision class (C11), Debug and String::from (C07)
    for p in sc:
        for P in (None, 0, 1, 9, 17, 18, 19, 40):
            jobs.append(('c11', (p, P)))
        for xc in ('neg', 'zero', 'pos'):
            jobs.append(('c07', (p, xc)))
    # float conversions (C12, C13): the boundary cells in both tiers (the full cell sets are run by the properties' own thorough checks)
    jobs += [('c12', j) for j in c12.job_list('quick')]
    jobs += [('c13', j) for j in c13.job_list('quick')]
    for j in (('helper', 'skip_leading_zeroes'), ('helper', 'accum_coeff'), ('helper', 'accum_exp'), ('root', 'str_to_dec'), ('root', 'from_str')):
        jobs.append(('c06', j))
    return jobs


def strip_spans(o):
    if isinstance(o, dict):
        r = {k: strip_spans(v) for k, v in o.items() if k not in ('span', 'tspan', 'site')}
        if 'opaque' in r and isinstance(r['opaque'], str):
            import re
            r['opaque'] = re.sub(r'alloc\d+', 'alloc', r['opaque'])
        return r
    if isinstance(o, list):
        return [strip_spans(v) for v in o]
    return o


def config_diff(rep, db_a, db_b, name_b):
    na = nb = 0
    diffs = []
    for fid, fa in db_a.fns.items():
        if fa['crate'] != 'fpdec':
            continue
        fb = db_b.fns.get(fid)
        na += 1
        if fb is None:
            diffs.append((fid, 'missing in %s' % name_b))
            continue
        a = json.dumps(strip_spans({'blocks': fa['blocks'], 'locals': fa['locals'], 'promoted': fa.get('promoted')}), sort_keys=True)
        b = json.dumps(strip_spans({'blocks': fb['blocks'], 'locals': fb['locals'], 'promoted': fb.get('promoted')}), sort_keys=True)
        if a != b:
            diffs.append((fid, 'MIR differs'))
    for fid, fb in db_b.fns.items():
        if fb['crate'] == 'fpdec' and fid not in db_a.fns:
            diffs.append((fid, 'only in %s' % name_b))
    for fid, why in diffs:
        rep.ob('R-CONFIG-DIFF', 'default-vs-%s;%s' % (name_b, fid), False, 'function body %s between the default and the %s configuration: behaviour may depend on the feature' % (why, name_b),
               site=span_str(db_a.fns.get(fid, db_b.fns.get(fid)).get('span')))
    rep.ob('R-CONFIG-DIFF', 'default-vs-%s;all-bodies' % name_b, not diffs, 'compared %d function bodies of crate fpdec (MIR-lite without spans): %d differ' % (na, len(diffs)))
    # layout attribute really differs (so the comparison is not vacuous)
    pa = db_a.adts.get('fpdec::Decimal', {}).get('packed')
    pb = db_b.adts.get('fpdec::Decimal', {}).get('packed')
    rep.ob('R-CONFIG-DIFF', 'default-vs-%s;layout-differs' % name_b, pa is False and pb is True, 'Decimal packed: default=%s %s=%s' % (pa, name_b, pb))


UNSAFE_ALLOWED = {
    # (caller prefix, callee path fragment)
    ('fpdec_core::parser::', 'skip_n'), ('fpdec_core::parser::', 'skip_1'), ('fpdec_core::parser::', 'read_u64_unchecked'),
    ('fpdec_core::parser::', 'get_unchecked'), ('fpdec_core::parser::', 'read_unaligned'),
    ('fpdec_core::rounding::DFLT_ROUNDING_MODE', 'get_or_init'),
}


def unsafe_rule(rep, db):
    n = 0
    for f in db.fns.values():
        if f['crate'] not in ('fpdec', 'fpdec_core'):
            continue
        for bi, t, blk in mir.iter_calls(f):
            c = t['call'].get('const') if isinstance(t['call'], dict) else None
            if not c:
                continue
            r = c.get('resolved') or c
            if r.get('unsafe') or c.get('unsafe'):
                n += 1
                path = r.get('path', '')
                macros = (blk.get('tspan') or {}).get('macros', [])
                ok = any(f['id'].startswith(a) and b in path for a, b in UNSAFE_ALLOWED)
                if not ok and 'fmt::Arguments' in path and any('format_args' in m or 'format' in m or 'write' in m or 'panic' in m or 'assert' in m for m in macros):
                    ok = True       # emitted by the format_args! expansion of std, not written in the crate
                if not ok and 'thread::local_impl::' in path and any('thread_local' in m for m in macros) and any(
                        'LocalKey<' in it['ty'] and f['id'].startswith(it['id'] + '::') for it in db.items.values()):
                    ok = True       # accessor closure generated by std's thread_local! (lazy: get_or_init, `const { .. }` initialiser: EagerStorage::get), nested under the key
                rep.ob('R-UNSAFE', '%s;calls-unsafe;%s' % (f['id'], path.rsplit('::', 1)[-1]), ok,
                       'call of unsafe fn %s outside the audited set (parser helpers, thread_local internals): undefined behaviour would make results depend on the optimisation level' % path,
                       site=span_str(blk.get('tspan')))
        if f.get('unsafe') and not f['id'].startswith('fpdec_core::parser::'):
            rep.ob('R-UNSAFE', '%s;unsafe-fn' % f['id'], False, 'unsafe fn outside the parser', site=span_str(f.get('span')))
    lvl = db.meta.get('fpdec', {}).get('unsafe_code_lint')
    rep.ob('R-UNSAFE', 'fpdec;deny(unsafe_code)', lvl in ('Deny', 'Forbid'), 'crate fpdec lint level for unsafe_code: %s' % lvl)
    rep.floor('R-UNSAFE', 8)


def run(rep, tier):
    db = get_db()
    rep.tree_hash = db.tree_hash
    rep.configs = ['default', 'packed']
    rep.level = 'other'
    jobs = job_list(tier)
    res = map_jobs('collect', __name__, jobs)
    execd = set()
    fails = {}
    for e, f in res:
        execd |= e
        for k, v in f.items():
            fails.setdefault(k, v)
    inv = profile.inventory(db)
    entered = set(fid for fid, bb in execd if bb == -1)
    ordn = {}
    n_reached = n_audited = 0
    for s in inv:
        k0 = (s['fn'], s['kind'], s['op'])
        ordn[k0] = ordn.get(k0, 0) + 1
        key = '%s;%s;%s#%d' % (s['fn'], s['kind'], s['op'].rsplit('::', 1)[-1] if s['kind'] == 'inherit' else s['op'], ordn[k0])
        site = (s['fn'], s['bb'])
        reached = site in execd or (s['kind'] == 'debug_assert' and s['fn'] in entered)
        if site in fails:
            f = fails[site]
            rep.ob('R-PROFILE', key, False,
                   'profile-dependent check with a feasible failure edge: with overflow checks / debug assertions on this panics (%s), without them execution continues with a wrapped value. '
                   'First cell: %s (root %s) %s' % (f['kind'], f['cell'], f['root'], f['info']), site=s['site'])
        elif reached:
            n_reached += 1
            rep.ob('R-PROFILE', key, True, 'reached by the analysed cells, failure edge infeasible in all of them', site=s['site'])
        else:
            why = audited(s['fn'])
            if why is None and compile_time_only(db, s['fn']):
                why = 'private function without a caller in any function body: evaluated at compile time (const initialiser) or dead - no run-time profile dependence'
            n_audited += 1 if why else 0
            rep.ob('R-PROFILE-COVER', key, why is not None,
                   'profile-dependent site not reached by any analysed cell and not in the audited table' if not why else 'not decided here: %s' % why, site=s['site'])
            if why:
                rep.assume('R-PROFILE not decided for %s: %s' % (s['fn'].rsplit('::', 2)[0] if '{' in s['fn'] else s['fn'], why))
    rep.floor('R-PROFILE', 40)
    rep.extra['profile_sites_inventory'] = len(inv)
    rep.extra['profile_sites_reached'] = n_reached
    rep.extra['profile_sites_audited_not_decided'] = n_audited
    rep.extra['cells_run'] = len(jobs)
    dbp = DB('packed')
    config_diff(rep, db, dbp, 'packed')
    unsafe_rule(rep, db)
    rep.explanation = ('R-PROFILE: the MIR is extracted with overflow checks and debug assertions ON so that every profile-dependent check is materialised; the %d cells of the arithmetic, '
                       'comparison, rounding, conversion, unary, wide-kernel (incl. Knuth-D), gcd / ratio and parser proofs are re-run with collectors on: a site passes iff it was reached and its failure edge was infeasible in every '
                       'cell (then the release build, which omits the check, computes the same thing); a feasible failure edge is "dev panics, release wraps". Sites in functions whose '
                       'properties are not decided by this machinery are listed as assumptions. R-CONFIG-DIFF: function bodies are identical MIR under feature packed. R-UNSAFE: unsafe '
                       'operations are confined to the audited parser helpers, so the optimisation level cannot change behaviour (compiler trusted).' % len(jobs))
    rep.trust('rustc: absent undefined behaviour, opt-level does not change observable results')
    rep.trust('rustc nightly MIR; absint transfer functions and callee models')
    rep.assume('the unsafe preconditions of the parser helpers are C06\'s obligations')
