"""C15: floor, ceil, trunc, fract, abs, neg, magnitude and the sign predicates are exact (oracle: Appendix A.9).

Every check is of the form "the path condition of each return path implies the
defining inequalities of the result", e.g. floor: 10^p*F <= x < 10^p*(F+1).
"""
from ..absint import Interp, Opts, ByRef, Agg, Int, K, NEG, ZERO, POS, NONNEG, NONPOS
from ..harness import (dec_coeff, M, SCALES_ALL, dec_val, dec_parts, poly_eq, show_outcome, show_poly, get_db, run_jobs, split_bool, DEC)
from ..db import span_str
from ..poly import padd, pscale, pconst, pneg
from ..rules import fwd
from .. import mir

UNOPS = ['floor', 'ceil', 'trunc', 'fract', 'abs', 'neg', 'neg_ref', 'eq_zero', 'eq_one', 'is_negative', 'is_positive']


def find_fn(db, name):
    if name == 'neg':
        return db.find_impl_fn('core::ops::arith::Neg', ['Decimal'], 'neg')
    if name == 'neg_ref':
        return db.find_impl_fn('core::ops::arith::Neg', ['&Decimal'], 'neg')
    # inherent methods of Decimal
    c = [f for f in db.fns.values() if f['crate'] == 'fpdec' and f['name'] == name and f['impl'] and f['impl']['trait'] is None and f['impl']['self'] == 'Decimal']
    if len(c) != 1:
        raise SystemExit('fpsa: inherent method Decimal::%s not found uniquely (%d) (fail closed)' % (name, len(c)))
    return c[0]


def le(s, p):       # p <= 0 on this path?
    return s.sign(p) <= NONPOS


def lt(s, p):
    return s.sign(p) <= NEG


def run_job(job):
    kind = job[0]
    db = get_db(job[-1]) if kind == 'nt' else get_db()
    if kind == 'magnitude':
        return job_magnitude(db, job)
    if kind == 'nt':
        return job_numtraits(db, job)
    name, p = job[1], job[2]
    fn = find_fn(db, name)
    I = Interp(db, Opts())
    st = I.new_state()
    d = dec_val(st, 'x', p)
    x = dec_coeff(d)
    by_ref = fn['locals'][1].startswith('&')
    I.call_root(st, fn, [ByRef(d) if by_ref else d])
    outs = I.explore(st)
    t = 10 ** p
    bad = []
    for o in outs:
        s = o.state
        if o.kind != 'ret':
            bad.append(show_outcome(o))
            continue
        v = o.value
        if name in ('eq_zero', 'eq_one', 'is_negative', 'is_positive'):
            parts = split_bool(o) if isinstance(v, Int) else None
            if parts is None:
                bad.append('undecidable bool %s' % show_outcome(o))
                continue
            form = {'eq_zero': x.p, 'eq_one': padd(x.p, pconst(t), -1), 'is_negative': x.p, 'is_positive': x.p}[name]
            strue = {'eq_zero': ZERO, 'eq_one': ZERO, 'is_negative': NEG, 'is_positive': POS}[name]
            for truth, s2 in parts:
                have = s2.sign(form)
                if truth and not have <= strue:
                    bad.append('%s is true where sign(%s) may be %s' % (name, show_poly(s2, form), sorted(have)))
                if not truth and have & strue:
                    bad.append('%s is false where sign(%s) may be %s' % (name, show_poly(s2, form), sorted(have)))
            continue
        dp = dec_parts(v)
        if dp is None:
            bad.append('not a Decimal: %s' % show_outcome(o))
            continue
        c, nfd = dp
        sc = (nfd.lo, nfd.hi)
        if name == 'floor':
            e = padd(x.p, pscale(c.p, t), -1)           # x - t*F  in [0, t)
            if not (s.sign(e) <= NONNEG and lt(s, padd(e, pconst(t), -1)) and sc == (0, 0)):
                bad.append('floor: need 0 <= x - 10^p*F < 10^p at scale 0; F=%s scale=%s sign=%s' % (show_poly(s, c.p), sc, sorted(s.sign(e))))
        elif name == 'ceil':
            e = padd(pscale(c.p, t), x.p, -1)           # t*C - x in [0, t)
            if not (s.sign(e) <= NONNEG and lt(s, padd(e, pconst(t), -1)) and sc == (0, 0)):
                bad.append('ceil: need 0 <= 10^p*C - x < 10^p at scale 0; C=%s scale=%s' % (show_poly(s, c.p), sc))
        elif name in ('trunc', 'fract'):
            if name == 'trunc':
                r = padd(x.p, pscale(c.p, t), -1)       # remainder x - t*T
                scale_ok = sc == (0, 0)
                integral = True
            else:
                r = c.p
                scale_ok = sc == (p, p) if p > 0 else sc == (0, 0)
                q = s.norm(padd(x.p, c.p, -1))           # x - R must be a multiple of t (an integer times 10^p)
                integral = all(cv % t == 0 for cv in q.values())
            sx = s.sign(x.p)
            if s.sign(r) == ZERO:
                rng = True
            elif sx <= NONNEG:
                rng = s.sign(r) <= NONNEG and lt(s, padd(r, pconst(t), -1))
            elif sx <= NONPOS:
                rng = s.sign(r) <= NONPOS and s.sign(padd(r, pconst(t))) <= POS
            else:
                rng = False
            if not (rng and scale_ok and integral):
                bad.append('%s: remainder %s must lie in [0,10^p) resp. (-10^p,0] by the sign of x (sign x %s), integral part integral=%s, scale %s' % (
                    name, show_poly(s, r), sorted(sx), integral, sc))
        elif name in ('neg', 'neg_ref'):
            if not (poly_eq(s, c.p, pneg(x.p)) and sc == (p, p)):
                bad.append('neg: %s' % show_outcome(o))
        elif name == 'abs':
            okv = s.sign(c.p) <= NONNEG and ((poly_eq(s, c.p, x.p) and s.sign(x.p) <= NONNEG) or (poly_eq(s, c.p, pneg(x.p)) and s.sign(x.p) <= NONPOS))
            if not (okv and sc == (p, p)):
                bad.append('abs: %s' % show_outcome(o))
    if not outs:
        bad.append('no outcome')
    return [('B-UNOP', '%s;p=%d' % (name, p), not bad, '; '.join(bad[:3]) or 'paths=%d' % len(outs), span_str(fn.get('span')) if bad else None)]


def job_magnitude(db, job):
    _, p, k, sgn = job
    fn = find_fn(db, 'magnitude')
    I = Interp(db, Opts())
    st = I.new_state()
    if k < 0:
        lo = hi = 0
        want = 0
    else:
        lo, hi = 10 ** k, min(10 ** (k + 1) - 1, M)
        if sgn < 0:
            lo, hi = -hi, -lo
        want = k - p
    d = dec_val(st, 'x', p, lo, hi)
    I.call_root(st, fn, [d])
    outs = I.explore(st)
    bad = []
    for o in outs:
        if o.kind != 'ret' or not isinstance(o.value, Int):
            bad.append(show_outcome(o))
            continue
        vlo, vhi = o.state.itv(o.value)
        if (vlo, vhi) != (want, want):
            bad.append('magnitude in [%s,%s], expected %d' % (vlo, vhi, want))
    if not outs:
        bad.append('no outcome')
    cls = 'zero' if k < 0 else ('10^%d..%s' % (k, '+' if sgn > 0 else '-'))
    return [('B-MAGNITUDE', 'p=%d;%s' % (p, cls), not bad, '; '.join(bad[:3]) or 'returns %d on the whole decade' % want, span_str(fn.get('span')) if bad else None)]


def job_numtraits(db, job):
    _, name, p, q, cfg = job
    I = Interp(db, Opts())
    st = I.new_state()
    bad = []
    T_SIGNED = 'num_traits::sign::Signed'
    if name == 'signum':
        fn = db.find_impl_fn(T_SIGNED, ['Decimal'], 'signum')
        if fn is None:
            return [('B-NUMTRAITS', 'signum;p=%d' % p, False, 'impl Signed for Decimal not found', None)]
        d = dec_val(st, 'x', p)
        I.call_root(st, fn, [ByRef(d)])
        for o in I.explore(st):
            dp = dec_parts(o.value) if o.kind == 'ret' else None
            if dp is None:
                bad.append(show_outcome(o))
                continue
            s = o.state
            c, nfd = dp
            lo, hi = s.itv(c)
            sx = s.sign(dec_coeff(d).p)
            if lo != hi or sx != frozenset((lo,)) or (nfd.lo, nfd.hi) != (0, 0):
                bad.append('signum = %s at scale %s where sign x may be %s' % ((lo, hi), (nfd.lo, nfd.hi), sorted(sx)))
        return [('B-NUMTRAITS', 'signum;p=%d' % p, not bad, '; '.join(bad[:3]) or 'signum in {-1,0,1} equals sign(x)', None)]
    if name == 'abs_sub':
        fn = db.find_impl_fn(T_SIGNED, ['Decimal'], 'abs_sub')
        a, b = dec_val(st, 'x', p), dec_val(st, 'y', q)
        I.call_root(st, fn, [ByRef(a), ByRef(b)])
        m = max(p, q)
        D = padd(pscale(dec_coeff(a).p, 10 ** (m - p)), pscale(dec_coeff(b).p, 10 ** (m - q)), -1)
        n_val = 0
        for o in I.explore(st):
            s = o.state
            if o.kind == 'panic' and o.value in ('overflow', 'DecimalError::InternalOverflow'):
                continue        # x - y not representable: overflow signal (C01)
            dp = dec_parts(o.value) if o.kind == 'ret' else None
            if dp is None:
                bad.append(show_outcome(o))
                continue
            c, nfd = dp
            n_val += 1
            sd = s.sign(D)
            if sd <= NONPOS:
                if not (s.itv(c) == (0, 0)):
                    bad.append('x <= y but result %s' % show_outcome(o))
            elif sd <= POS:
                if not (poly_eq(s, c.p, D) and (nfd.lo, nfd.hi) == (m, m)):
                    bad.append('x > y but result %s, expected %s' % (show_outcome(o), show_poly(s, D)))
            else:
                bad.append('comparison undecided on a return path')
        if n_val < 2:
            bad.append('fewer than two value paths')
        return [('B-NUMTRAITS', 'abs_sub;p=%d;q=%d' % (p, q), not bad, '; '.join(bad[:3]) or 'max(x-y, 0)', None)]
    raise SystemExit('unknown nt job')


def run(rep, tier):
    db = get_db()
    rep.tree_hash = db.tree_hash
    rep.configs = ['default']
    jobs = []
    for name in UNOPS:
        for p in SCALES_ALL:
            jobs.append(('unop', name, p))
    for p in SCALES_ALL:
        jobs.append(('magnitude', p, -1, 0))
        for k in range(39):
            for sgn in (1, -1):
                jobs.append(('magnitude', p, k, sgn))
    run_jobs(rep, __name__, jobs)
    rep.floor('B-UNOP', len(UNOPS) * 19)
    rep.floor('B-MAGNITUDE', 19 * 79)
    # the num-traits clause (feature-gated impls) is part of the statement: analysed in both tiers (configuration num-traits)
    dbn = get_db('num-traits')
    rep.configs.append('num-traits')
    njobs = [('nt', 'signum', p, 0, 'num-traits') for p in SCALES_ALL]
    for p in (0, 1, 9, 18):
        for q in (0, 2, 18):
            njobs.append(('nt', 'abs_sub', p, q, 'num-traits'))
    run_jobs(rep, __name__, njobs)
    numtraits_forwarders(rep, dbn)
    rep.floor('B-NUMTRAITS', len(njobs))
    rep.explanation = ('Abstract interpretation per scale cell with a symbolic coefficient: each return path must imply the defining inequalities of floor / ceil / trunc / '
                       'fract (e.g. 0 <= x - 10^p*floor < 10^p), the exact terms -x and |x| for neg/abs, and the exact truth condition of the four predicates. '
                       'magnitude: for each of the 39 decades [10^k, 10^(k+1)-1] (cut at 2^127-1), both signs and all 19 scales the interval x known-bits analysis of '
                       'the branch-free log10 must yield the constant k - p, and 0 for a zero coefficient.')
    rep.trust('rustc nightly MIR; absint transfer functions (truncating division identities, known-bits from intervals) and callee models')


def numtraits_forwarders(rep, db):
    """Zero/One/Signed methods that must be plain forwarders to the inherent methods"""
    exp = {
        ('num_traits::identities::Zero', 'is_zero'): 'eq_zero', ('num_traits::identities::One', 'is_one'): 'eq_one',
        ('num_traits::sign::Signed', 'abs'): 'abs', ('num_traits::sign::Signed', 'is_positive'): 'is_positive',
        ('num_traits::sign::Signed', 'is_negative'): 'is_negative',
    }
    for (tr, meth), target in exp.items():
        fn = db.find_impl_fn(tr, ['Decimal'], meth)
        key = 'num-traits;%s::%s' % (tr.rsplit('::', 1)[1], meth)
        if fn is None:
            rep.ob('R-FWD-NT', key, False, 'impl method not found')
            continue
        sh, why = fwd.shape(fn)
        tgt = [f for f in db.fns.values() if f['crate'] == 'fpdec' and f['name'] == target and f['impl'] and f['impl']['trait'] is None and f['impl']['self'] == 'Decimal']
        ok = sh is not None and len(tgt) == 1 and sh['callee'] == tgt[0]['id'] and sh['args'] == [('param', 1)] and sh['ret'] == 'returned'
        rep.ob('R-FWD-NT', key, ok, 'must forward to Decimal::%s(self); found %s (%s)' % (target, sh, why), site=span_str(fn.get('span')))
    # constants
    for tr, meth, want in (('num_traits::identities::Zero', 'zero', (0, 0)), ('num_traits::identities::One', 'one', (1, 0))):
        fn = db.find_impl_fn(tr, ['Decimal'], meth)
        key = 'num-traits;%s::%s' % (tr.rsplit('::', 1)[1], meth)
        if fn is None:
            rep.ob('R-FWD-NT', key, False, 'impl method not found')
            continue
        I = Interp(db, Opts())
        st = I.new_state()
        I.call_root(st, fn, [])
        outs = I.explore(st)
        ok = len(outs) == 1 and outs[0].kind == 'ret' and dec_parts(outs[0].value) is not None
        if ok:
            c, n = dec_parts(outs[0].value)
            ok = (c.lo, c.hi, n.lo, n.hi) == (want[0], want[0], want[1], want[1])
        rep.ob('R-FWD-NT', key, ok, 'returns %s' % (outs,))
    # from_str_radix: radix != 10 -> Err(Invalid); radix == 10 -> from_str(s)
    fn = db.find_impl_fn('num_traits::Num', ['Decimal'], 'from_str_radix')
    key = 'num-traits;Num::from_str_radix'
    if fn is None:
        rep.ob('R-FWD-NT', key, False, 'impl method not found')
        return
    fs = db.find_impl_fn('core::str::traits::FromStr', ['Decimal'], 'from_str')
    from ..absint import SliceVal, RESULT
    from ..harness import variant_name
    I = Interp(db, Opts(no_inline=[fs['id']] if fs else []))
    bad = []
    for cell, lo, hi in (('radix<10', 0, 9), ('radix=10', 10, 10), ('radix>10', 11, 2**32 - 1)):
        st = I.new_state()
        sl = SliceVal(st.sym('len', 0, 2**62, 'usize'), 'str')
        I.call_root(st, fn, [sl, st.sym('radix', lo, hi, 'u32')])
        outs = I.explore(st)
        for o in outs:
            if cell == 'radix=10':
                # must reach the from_str call with the same string (reported as unknown because it is not inlined)
                if not (o.kind == 'unknown' and 'no model' in str(o.info) and 'from_str' in str(o.info)):
                    bad.append('%s: %s' % (cell, show_outcome(o)))
            else:
                v = o.value if o.kind == 'ret' else None
                if not (isinstance(v, Agg) and v.kind == RESULT and v.variant == 1 and variant_name(db, v.fields[0]) == 'Invalid'):
                    bad.append('%s: %s' % (cell, show_outcome(o)))
        if not outs:
            bad.append('%s: no outcome' % cell)
    rep.ob('R-FWD-NT', key, not bad, '; '.join(bad[:3]) or 'radix != 10 -> Err(Invalid); radix == 10 -> from_str', site=span_str(fn.get('span')))
