"""Proof obligations of the summaries a check relies on (assume/guarantee made self-contained).

A property whose check replaces the rounding helpers by their summaries (R: i128_div_rounded, W: the wide helpers, U: the unsigned
kernels) re-runs the summaries' proofs here, so that a change inside a helper is reported by every property that depends on it.
"""
from ..harness import run_jobs
from . import c05, c16


def run_job(job):
    spec, j = job
    mod = {'c05': c05, 'c16': c16}[spec]
    return [('DEP-' + r, k, ok, d, s) for (r, k, ok, d, s) in mod.run_job(j)]


def have_kernel():
    from ..harness import get_db
    return c05.kernel_fn(get_db(), required=False) is not None


def jobs_R():
    jobs = []
    hk = have_kernel()
    for mode in c05.MODES:
        for via_none in (False, True):
            if hk:
                jobs.append(('c05', ('kernel', mode, via_none)))
            for yc in c05.Y_CELLS:
                jobs.append(('c05', ('divr', mode, via_none, yc)))
    jobs += [('c05', ('floor', yc)) for yc in c05.Y_CELLS]
    return jobs


def jobs_W(tier, kinds=('shifted', 'muldiv')):
    """'shifted': i128_shifted_div_rounded (division paths); 'muldiv': i128_mul_div_ten_pow_rounded (multiplication paths)"""
    ps = [0, 1, 18, 19, 37, 38]
    jobs = []
    if 'shifted' in kinds:
        for p in ps:
            for sx in ('neg', 'zero', 'pos'):
                for sy in ('neg', 'pos'):
                    jobs.append(('c16', ('S', 'shifted', p, sx, sy, None)))
    if 'muldiv' in kinds:
        for sx in ('neg', 'zero', 'pos'):
            for s2 in ('neg', 'zero', 'pos'):
                jobs.append(('c16', ('S', 'muldiv', '-', sx, 'pos', s2)))
    jobs = [('c16', j) for j in c16.kernel_jobs(tier, dep=True)] + jobs       # the unsigned kernels the wrappers stand on
    for mode in c05.MODES:
        for via_none in (False, True):
            for p in (1, 19, 38):
                for sx in ('neg', 'pos'):
                    if 'shifted' in kinds:
                        for sy in ('neg', 'pos'):
                            jobs.append(('c16', ('W', 'shifted', p, mode, via_none, sx, sy, None)))
                    if 'muldiv' in kinds:
                        for s2 in ('neg', 'pos'):
                            jobs.append(('c16', ('W', 'muldiv', p, mode, via_none, sx, None, s2)))
    return jobs


def run(rep, tier, which=('R', 'W')):
    jobs = []
    if 'R' in which:
        jobs += jobs_R()
    wk = [k for k in ('shifted', 'muldiv') if 'W' in which or 'W-' + k in which]
    if wk:
        jobs += jobs_W(tier, wk)
    run_jobs(rep, __name__, jobs)
    if 'R' in which:
        # "the thread's current rounding mode": RoundingMode::default() must read the per-thread cell (rules of C19)
        from ..rules import tls
        from ..harness import get_db

        class _Sub:
            def __init__(self, rep):
                self.rep = rep

            def ob(self, rule, key, ok, detail='', site=None, sample=None):
                return self.rep.ob('DEP-' + rule, key, ok, detail, site, sample)
        tls.run(_Sub(rep), get_db(), std=True)
    if 'R' in which:
        if have_kernel():
            rep.floor('DEP-K-ROUND-QUOT', 16)
        rep.floor('DEP-R-DIV-ROUNDED', 64)
        rep.floor('DEP-F-DIV-MOD-FLOOR', 4)
    if wk:
        rep.floor('DEP-U-KERNEL', 7)
        rep.floor('DEP-S-WIDE-FLOOR', 9 if wk == ['muldiv'] else 36)
        rep.floor('DEP-W-WIDE-ROUNDED', 96 * len(wk) if len(wk) == 1 and wk[0] == 'muldiv' else 190)
