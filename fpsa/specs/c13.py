"""C13: f64 / f32 -> Decimal yields the nearest 18-digit Decimal (ties to even, no trailing zeros) or a precise error; no float input panics.

A float is its bit pattern.  One cell per (float type, sign bit, exponent field) - all 2 x 2048 resp. 2 x 256 of them in the thorough
tier - with the fraction field symbolic; the exponent field 0 and all-ones are split further by fraction == 0 / != 0 (zero / subnormal,
infinity / NaN).  In a cell the binary exponent is concrete, so the divisor 2^-e of the long division is a constant, the digit loop
unrolls (at most 18 rounds, each forks on rem == 0), the half-even step and the normalisation loop fork on their own tests.
Oracle (from the statement): with sig the 53 (24) bit significand and e the exponent of the value s * sig * 2^e,
  e >= 0:  Ok(s * sig * 2^e, 0) when that fits i128, else Err(InternalOverflow);
  e <  0:  Ok((c, n)) with  |c| * 10^(18-n) = RoundHalfEven(sig * 10^18 / 2^-e)  (the exact value when it has at most 18 fractional digits -
           then the quotient is an integer), sign(c) = s or c = 0, n <= 18, and n = 0 or c mod 10 != 0 established on the path;
  zero / subnormal: Ok(0, 0) (their magnitude is below 5 * 10^-19);  infinity: Err(InfiniteValue);  NaN: Err(NotANumber);
and no path panics.
"""
from ..absint import Interp, Opts, Agg, Int, K, ZERO, NEG, POS, NONNEG, NONPOS
from ..harness import (M, poly_eq, show_outcome, show_poly, get_db, run_jobs, res_parts, dec_parts, variant_name, query_trem)
from ..db import span_str
from ..poly import padd, pscale, pconst, pneg
from ..rounding import check_rounded

FMT = {'f64': (11, 52, 1023, 'u64'), 'f32': (8, 23, 127, 'u32')}
MAXI = 2 ** 127 - 1


def root(db, fl):
    for f in db.fns.values():
        im = f.get('impl') or {}
        if im.get('trait') == 'core::convert::TryFrom' and (im.get('trait_args') or [None, None])[:2] == ['Decimal', fl] and f['name'] == 'try_from':
            return f
    return None


def run_job(job):
    fl, sg, be, fcls = job
    db = get_db()
    key = '%s;sign=%d;exp_field=%d;%s' % (fl, sg, be, fcls)
    fn = root(db, fl)
    if fn is None:
        return [('B-FROMFLOAT', key, False, 'impl TryFrom<%s> for Decimal not found' % fl, None)]
    EB, FB, bias, ity = FMT[fl]
    I = Interp(db, Opts(max_paths=30000))
    st = I.new_state()
    st.decomp_depth = 2
    flo, fhi = {'any': (0, 2 ** FB - 1), 'zero': (0, 0), 'nonzero': (1, 2 ** FB - 1)}[fcls]
    frac = st.sym('frac', flo, fhi, ity)
    bits = I.mk(st, ity, padd(frac.p, pconst((sg << (EB + FB)) + (be << FB))))
    I.call_root(st, fn, [Agg('float:' + fl, None, (bits,))])
    outs = I.explore(st)
    s_ = -1 if sg else 1
    sig = padd(frac.p, pconst(2 ** FB))
    e = be - bias - FB
    bad = []
    n_ok = 0
    for o in outs:
        s = o.state
        if o.kind != 'ret':
            bad.append(show_outcome(o)[:300])
            continue
        rp = res_parts(o.value)
        if rp is None:
            bad.append('not a Result: %s' % show_outcome(o)[:200])
            continue
        err = variant_name(db, rp[1]) if rp[0] == 'err' else None
        if be == 2 ** EB - 1:
            want = 'InfiniteValue' if fcls == 'zero' else 'NotANumber'
            if err != want:
                bad.append('expected Err(%s), found %s' % (want, err or 'Ok'))
            continue
        if rp[0] == 'ok':
            dp = dec_parts(rp[1])
            if dp is None:
                bad.append('Ok payload is not a Decimal: %s' % show_outcome(o)[:200])
                continue
            c, nfd = dp
            nlo, nhi = s.itv(nfd)
        if be == 0:
            if not (rp[0] == 'ok' and s.itv(c) == (0, 0) and (nlo, nhi) == (0, 0)):
                bad.append('zero / subnormal must give Ok(0): %s' % show_outcome(o)[:200])
            continue
        if e >= 0:
            val = pscale(sig, 2 ** e)
            if rp[0] == 'ok':
                n_ok += 1
                if not (poly_eq(s, c.p, pscale(val, s_)) and (nlo, nhi) == (0, 0)):
                    bad.append('integral float: expected (%s%s, 0), found (%s, [%s,%s])' % ('-' if sg else '', show_poly(s, val)[:60], show_poly(s, c.p)[:80], nlo, nhi))
            elif err == 'InternalOverflow':
                lim = 2 ** 127 if s_ > 0 else 2 ** 127 + 1
                if not s.sign(padd(val, pconst(lim), -1)) <= (ZERO | POS):
                    bad.append('Err(InternalOverflow) although s * sig * 2^%d may fit i128' % e)
            else:
                bad.append('unexpected Err(%s)' % err)
            continue
        # e < 0
        if rp[0] != 'ok':
            bad.append('unexpected Err(%s) for a finite value of magnitude below 2^53' % err)
            continue
        n_ok += 1
        if nlo != nhi or nlo > 18:
            bad.append('n_frac_digits [%s,%s] undecided or above 18' % (nlo, nhi))
            continue
        n = nlo
        sc = s.sign(c.p)
        if not (sc <= (ZERO | (NEG if sg else POS))):
            bad.append('sign of the coefficient %s differs from the sign of the float' % sorted(sc))
            continue
        absc = pneg(c.p) if sg else c.p
        V = pscale(absc, 10 ** (18 - n))
        N = pscale(sig, 10 ** 18)
        D = pconst(2 ** (-e))
        ok, msg = check_rounded(s, V, N, D, 'RoundHalfEven')
        if not ok:
            bad.append('(c, n) = (%s, %d): |c| * 10^%d is not RoundHalfEven(sig * 10^18 / 2^%d): %s' % (show_poly(s, c.p)[:80], n, 18 - n, -e, msg[:160]))
            continue
        if n > 0:
            s2 = s.clone()
            s2.journal = None
            try:
                r10 = I.divrem(s2, 'Rem', I.mk(s2, 'i128', c.p), K(10, 'i128'), 'i128')       # the signed coefficient: the same term the normalisation tested
                sgn = s2.sign(r10.p)
            except Exception:
                sgn = None
            if sgn is None or 0 in sgn:
                bad.append('trailing fractional zero not excluded: n = %d and c mod 10 may be 0 (c = %s)' % (n, show_poly(s, c.p)[:80]))
    if not outs:
        bad.append('no outcome')
    if 0 < be < 2 ** EB - 1 and n_ok == 0 and not (e >= 75):
        bad.append('no Ok path')
    seen = []
    for x in bad:
        if x not in seen:
            seen.append(x)
    return [('B-FROMFLOAT', key, not seen, '; '.join(seen[:3]) or 'paths=%d' % len(outs), span_str(fn.get('span')) if seen else None)]


def job_list(tier):
    jobs = []
    for fl in ('f64', 'f32'):
        EB, FB, bias, _ = FMT[fl]
        top = 2 ** EB - 1
        if tier == 'thorough':
            fields = range(1, top)
        else:
            ez = bias + FB          # exponent field of e = 0
            fields = sorted((set(range(1, top, 5 if fl == 'f64' else 3)) | set([1, 2, ez - 127, ez - 126, ez - 125, ez - 115, ez - 114, ez - 113, ez - 112, ez - 111, ez - 110, ez - 64, ez - 19, ez - 2, ez - 1, ez, ez + 1, ez + 74, ez + 75, ez + 103, ez + 104, top - 1])) & set(range(1, top)))
        for sg in (0, 1):
            for be in fields:
                jobs.append((fl, sg, be, 'any'))
            for fc in ('zero', 'nonzero'):
                jobs.append((fl, sg, 0, fc))
                jobs.append((fl, sg, top, fc))
    return jobs


def run(rep, tier):
    db = get_db()
    rep.tree_hash = db.tree_hash
    rep.configs = ['default']
    jobs = job_list(tier)
    run_jobs(rep, __name__, jobs)
    rep.floor('B-FROMFLOAT', len(jobs))
    rep.explanation = ('A float is its bit pattern (to_bits / is_nan / is_infinite modelled on the IEEE 754 fields). Per float type x sign x exponent field (thorough: every one of the 2 x 2048 + 2 x 256 '
                       'fields, i.e. every bit pattern; quick: the boundary fields) the MIR of TryFrom<fN> for Decimal is interpreted with a symbolic fraction field: the binary exponent and the divisor '
                       '2^-e are concrete, the digit loop unrolls (at most 18 rounds), the half-even step and the normalisation fork. Every path returns: Ok(s*sig*2^e, 0) or Err(InternalOverflow) exactly '
                       'by the i128 range for e >= 0; for e < 0 Ok((c, n)) with |c| * 10^(18-n) = RoundHalfEven(sig * 10^18 / 2^-e) by the fact-based RoundSpec oracle (the exact value when it has at most '
                       '18 fractional digits), the sign of the float, n <= 18 and no trailing fractional zero; Ok(0) for zeros and subnormals; InfiniteValue / NotANumber for the all-ones exponent field; no panic edge.')
    rep.trust('rustc nightly MIR; absint transfer functions and callee models; IEEE 754 binary32 / binary64 field layout as used by the float models')
