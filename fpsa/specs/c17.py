"""C17: all operand forms of an operator compute the same function.

(a) R-FWD: every reference form, compound assignment and reversed comparison is a pure forwarder to its base impl
    (a pure forwarder computes exactly the callee's function, including panics).
(b) integer operands: every Decimal x int / int x Decimal base impl is checked against the same oracle as the
    Decimal x Decimal form applied to (i, 0) - hence the forms agree wherever the oracle determines the outcome
    (value, scale for + and -, and failure class); the multiplication short-cut exception is part of that oracle.
"""
from ..harness import get_db, run_jobs, SCALES_ALL, T_ADD
from ..db import INT_TYPES9, span_str
from ..rules import fwd
from . import c01, c02, c03, c04, c08, c10

T_PEQ = 'core::cmp::PartialEq'
T_TRYFROM = 'core::convert::TryFrom'


def run_job(job):
    spec, j = job
    mod = {'c01': c01, 'c02': c02, 'c03': c03, 'c04': c04, 'c08': c08, 'c10': c10}[spec]
    return [('SIB-' + r, k, ok, d, s) for (r, k, ok, d, s) in mod.run_job(j)]


def run(rep, tier):
    db = get_db()
    rep.tree_hash = db.tree_hash
    rep.configs = ['default']
    # ---- (a) forwarders
    left = fwd.run_ops(rep, db)
    for fn, base, why in left:
        rep.ob('R-FWD', 'default;nonforwarder;%s' % fn['id'], False, 'reference form is not a pure forwarder (%s)' % why, site=span_str(fn.get('span')))
    fwd.run_assign(rep, db)
    rep.floor('R-FWD', 640)
    rep.floor('R-FWD-ASSIGN', 5)
    for ty in INT_TYPES9:
        fn = db.find_impl_fn(T_PEQ, [ty, 'Decimal'], 'eq')
        base = db.find_impl_fn(T_PEQ, ['Decimal', ty], 'eq')
        key = 'default;PartialEq<%s,Decimal>' % ty
        if fn is None or base is None:
            rep.ob('R-FWD-REV', key, False, 'impl missing')
            continue
        sh, why = fwd.shape(fn)
        ok = sh is not None and sh['callee'] == base['id'] and sh['args'] == [('param', 2), ('param', 1)] and sh['ret'] == 'returned'
        rep.ob('R-FWD-REV', key, ok, '`int == Decimal` must be `Decimal == int` with swapped operands; found %s (%s)' % (sh, why), site=span_str(fn.get('span')))
    rep.floor('R-FWD-REV', 9)
    fs = db.find_impl_fn('core::str::traits::FromStr', ['Decimal'], 'from_str')
    for src in ('&str', 'std::string::String'):
        fn = db.find_impl_fn(T_TRYFROM, ['Decimal', src], 'try_from')
        key = 'default;TryFrom<%s>' % src
        if fn is None or fs is None:
            rep.ob('R-FWD-STR', key, False, 'impl missing')
            continue
        sh, why = fwd.shape_multi(fn)
        ok = False
        if sh:
            last = sh[-1]
            arg_ok = last['args'] == [('param', 1)] or (len(last['args']) == 1 and last['args'][0][0] == 'call' and (last['args'][0][2] or '').endswith('String::as_str'))
            ok = last['callee'] == fs['id'] and arg_ok and last['ret'] == 'returned' and len(sh) <= 2
        rep.ob('R-FWD-STR', key, ok, 'TryFrom<%s> must return from_str(the string); found %s (%s)' % (src, sh, why), site=span_str(fn.get('span')))
    rep.floor('R-FWD-STR', 2)
    # ---- (b) integer forms against the Decimal x Decimal oracle
    scales = SCALES_ALL if tier == 'thorough' else [0, 1, 18]
    tys = INT_TYPES9
    jobs = []
    for ty in tys:
        for p in scales:
            for op in ('add', 'sub', 'checked_add', 'checked_sub'):
                jobs.append(('c01', (op, 'DI', ty, p, 0)))
                jobs.append(('c01', (op, 'ID', ty, 0, p)))
            for op in ('mul', 'checked_mul'):
                jobs.append(('c02', (op, 'DI', ty, p, 0)))
                jobs.append(('c02', (op, 'ID', ty, 0, p)))
            for op in ('div', 'checked_div'):
                jobs.append(('c03', (op, 'DI', ty, p, 0)))
                jobs.append(('c03', (op, 'ID', ty, 0, p)))
            for op in ('rem', 'checked_rem'):
                for xc in ('neg', 'pos'):
                    jobs.append(('c10', (op, 'DI', ty, p, 0, xc)))
                jobs.append(('c10', (op, 'ID', ty, 0, p, 'any')))
            jobs.append(('c08', ('eq', 'DI', ty, p, 0)))
            jobs.append(('c08', ('partial_cmp', 'DI', ty, p, 0)))
            jobs.append(('c08', ('partial_cmp', 'ID', ty, 0, p)))
            for n in ([0, 1, 18] if tier == 'quick' else [0, 1, 9, 17, 18]):
                jobs.append(('c04', ('div_rounded', 'DI', ty, p, 0, n)))
                jobs.append(('c04', ('div_rounded', 'ID', ty, 0, p, n)))
        for n in ([0, 1, 18] if tier == 'quick' else [0, 1, 9, 17, 18]):
            jobs.append(('c04', ('div_rounded', 'II', ty, 0, 0, n)))
        # rejection of n > 18 must agree between the forms as well
        jobs.append(('c04', ('div_rounded', 'II', ty, 0, 0, 19)))
        jobs.append(('c04', ('div_rounded', 'DI', ty, 2, 0, 19)))
        jobs.append(('c04', ('div_rounded', 'ID', ty, 0, 3, 19)))
    run_jobs(rep, __name__, jobs)
    rep.floor('SIB-B-ADDSUB', 8 * len(tys) * len(scales))
    rep.extra['sibling_jobs'] = len(jobs)
    from . import deps
    deps.run(rep, tier, ('R', 'W-shifted'))      # proofs of the summaries this check relies on
    rep.explanation = ('(a) All 657 reference forms of the 12 operator traits, the 5 compound assignments, the 9 reversed equality impls and the 2 string conversions are '
                       'recognised on MIR as pure forwarders (one call of the base impl with the parameters in order, result returned / stored to *self unchanged): they '
                       'compute exactly the base function, panics included. (b) Every integer-operand base impl (9 types, both positions) of +, -, *, /, %, their checked variants, '
                       'div_rounded, ==, partial_cmp is interpreted per scale cell and compared with the oracle of the Decimal x Decimal form applied to (i, 0): same value term, '
                       'same scale for + and -, same failure class; the one documented exception (only the Decimal form short-cuts an operand equal to one in *) is part of the oracle.')
    rep.assume('modulo the summaries R (C05) and W (C16, kernels included) for the rounded results')
    rep.trust('rustc nightly MIR; absint transfer functions and callee models')
