"""C18 (clause: everything after the shared parser): the Dec! macro and runtime parsing agree on every literal.

R-SHARED-PARSER: both obtain (coeff, exponent) from the same function fpdec_core::parser::str_to_dec applied to the literal text.
Sibling equivalence + oracle A.10: for every exponent cell the macro's post-processing (panic = compile error, otherwise the two
interpolated literals of `Decimal::new_raw(#coeff, #n_frac_digits)`) and from_str's post-processing have the same outcome set.
NOT decided: TokenStream::to_string and the blank stripping (proc-macro run-time behaviour), the parser itself (C06).
"""
from ..absint import Interp, Opts, Agg, Int, K, State, PanicExc, Stop, SliceVal, RESULT
from ..harness import (M, dec_parts, res_parts, variant_name, show_outcome, show_poly, get_db, run_jobs, notes_of)
from ..db import span_str
from ..poly import padd, pscale, pconst, pfreeze, Atoms
from .. import mir

PARSE = 'fpdec_core::parser::str_to_dec'
PERR = 'fpdec_core::parser::ParseDecimalError'
BIG = 2**40


def make_summ(elo, ehi):
    def summ(I, st, args, fid):
        """str_to_dec(lit): Err(any of the four kinds) or Ok((c, e)) with |c| <= 2^127-1 and e in the cell"""
        k = st.choose(5)
        if k < 4:
            return Agg(RESULT, 1, (Agg(PERR, k, ()),))
        c = st.sym('c', -M, M, 'i128')
        e = st.sym('e', elo, ehi, 'isize')
        return Agg(RESULT, 0, (Agg('tuple', None, (c, e)),))
    return summ


def errname(db, idx):
    for v in db.adts[PERR]['variants']:
        if v['index'] == idx:
            return v['name']
    return '?'


def run_job(job):
    elo, ehi = job
    db = get_db()
    atoms = Atoms()
    I = Interp(db, Opts(summaries={PARSE: make_summ(elo, ehi)}))
    bad = []
    # ---- runtime: <Decimal as FromStr>::from_str
    fs = db.find_impl_fn('core::str::traits::FromStr', ['Decimal'], 'from_str')
    st = State(atoms)
    I.call_root(st, fs, [SliceVal(st.sym('len', 0, 2**62, 'usize'), 'str')])
    rt = set()
    for o in I.explore(st):
        s = o.state
        rp = res_parts(o.value) if o.kind == 'ret' else None
        if rp is None:
            bad.append('from_str: %s' % show_outcome(o)[:200])
            continue
        passthrough = not s.atoms.lookup(('sym', 'c')) or all(n[0] != 'x' for n in s.notes) and ('sym', 'c') not in [s.atoms.desc[a] for a in s.bounds]
        if rp[0] == 'err':
            ov = frozenset(n[1] for n in notes_of(o, 'overflows'))
            rt.add(('err', errname(db, rp[1].variant), ov, parsed_ok(s)))
        else:
            dp = dec_parts(rp[1])
            if dp is None:
                bad.append('from_str Ok payload: %s' % show_outcome(o)[:200])
                continue
            rt.add(('ok', pfreeze(s.norm(dp[0].p)), s.itv(dp[1])))
    # ---- compile time: fpdec_macros::Dec
    dec = db.fns.get('fpdec_macros::Dec')
    if dec is None:
        return [('B-MACRO', 'e=%s..%s' % (elo, ehi), False, 'fpdec_macros::Dec not found', None)]
    st = State(atoms)
    from ..absint import Opaque
    I.call_root(st, dec, [Opaque('proc_macro::TokenStream', 'input')])
    ct = set()
    for o in I.explore(st):
        s = o.state
        if o.kind == 'panic' and isinstance(o.value, str) and o.value.startswith('ParseDecimalError::'):
            ov = frozenset(n[1] for n in notes_of(o, 'overflows'))
            ct.add(('err', o.value.split('::')[1], ov, parsed_ok(s)))
        elif o.kind == 'ret':
            toks = notes_of(o, 'tok')
            shape = [(t_[1], t_[2]) for t_ in toks if t_[1] != 'lit']
            lits = [t_ for t_ in toks if t_[1] == 'lit']
            want_shape = [('ident', 'Decimal'), ('colon2', None), ('ident', 'new_raw'), ('comma', None), ('group', None)]
            if shape != want_shape or len(lits) != 2 or lits[0][3] != 'i128' or lits[1][3] != 'u8':
                bad.append('Dec! does not emit Decimal::new_raw(<i128>, <u8>): %s' % (toks,))
                continue
            ct.add(('ok', lits[0][2], lits[1][4]))
        else:
            bad.append('Dec!: %s' % show_outcome(o)[:200])
    if rt != ct:
        bad.append('outcome sets differ: only runtime %s; only macro %s' % (sorted(map(str, rt - ct))[:3], sorted(map(str, ct - rt))[:3]))
    # ---- oracle A.10 on the runtime side
    c = atoms.lookup(('sym', 'c'))
    from ..poly import patom
    for r in rt:
        if r[0] == 'err' and not r[3]:
            continue        # the parser's own error, passed through
        if ehi < -18:
            ok = r[0] == 'err' and r[1] == 'FracDigitLimitExceeded'
        elif elo > 38:
            ok = r[0] == 'err' and r[1] == 'InternalOverflow'
        elif elo == ehi and elo < 0:
            ok = r[0] == 'ok' and r[1] == pfreeze(patom(c)) and r[2] == (-elo, -elo)
        elif elo == ehi:
            want = pfreeze(pscale(patom(c), 10 ** elo))
            ok = (r[0] == 'ok' and r[1] == want and r[2] == (0, 0)) or (r[0] == 'err' and r[1] == 'InternalOverflow' and r[2] == frozenset([want]))
        else:
            ok = False
        if not ok:
            bad.append('oracle A.10 violated for e in [%s,%s]: %s' % (elo, ehi, str(r)[:200]))
    if not rt:
        bad.append('no outcome')
    return [('B-MACRO', 'e=%s..%s' % (elo, ehi), not bad, '; '.join(bad[:3]) or 'outcome classes: %d (runtime == macro == oracle)' % len(rt), None)]


def parsed_ok(s):
    """did this path come from an Ok((c, e)) of the parser (the atoms c/e exist in its bounds)?"""
    a = s.atoms.lookup(('sym', 'c'))
    return a is not None and (a in s.bounds or a in s.subst)


def run(rep, tier):
    db = get_db()
    rep.tree_hash = db.tree_hash
    rep.configs = ['default']
    rep.level = 'other'
    # R-SHARED-PARSER
    for root, name in (('fpdec_macros::Dec', 'Dec!'), (None, 'from_str')):
        fn = db.fns.get(root) if root else db.find_impl_fn('core::str::traits::FromStr', ['Decimal'], 'from_str')
        if fn is None:
            rep.ob('R-SHARED-PARSER', name, False, 'root not found')
            continue
        calls = [mir.callee(t)[0] for bi, t, b in mir.iter_calls(fn) if bi in mir.reachable_blocks(fn)]
        n = calls.count(PARSE)
        others = [c for c in calls if c and c.startswith('fpdec') and c != PARSE and 'checked_mul_pow_ten' not in c]
        rep.ob('R-SHARED-PARSER', name, n == 1 and not others,
               '%s must obtain (coeff, exponent) from exactly one call of %s and call no other parsing helper; calls into the workspace: %s' % (name, PARSE, [c for c in calls if c and c.startswith('fpdec')]),
               site=span_str(fn.get('span')))
    # the text handed to the parser: macro -> derived from input.to_string(); runtime -> the argument itself
    fs = db.find_impl_fn('core::str::traits::FromStr', ['Decimal'], 'from_str')
    if fs is not None:
        du = mir.DefUse(fs)
        for bi, t, b in mir.iter_calls(fs):
            if mir.callee(t)[0] == PARSE:
                o = mir.origin(fs, t['args'][0], du)
                rep.ob('R-SHARED-PARSER', 'from_str-parses-its-argument', o == ('param', 1), 'from_str passes %s to the parser' % (o,), site=span_str(b.get('tspan')))
    dec = db.fns.get('fpdec_macros::Dec')
    if dec is not None:
        du = mir.DefUse(dec)
        for bi, t, b in mir.iter_calls(dec):
            if mir.callee(t)[0] == PARSE:
                o = mir.origin(dec, t['args'][0], du)
                flat = [n for n in mir.walk(o)]
                src_ok = any(n[0] == 'call' and (n[2] or '').endswith('to_string') for n in flat) or any(n[0] == 'local' for n in flat)
                only = all(n[0] in ('call', 'ref', 'deref', 'local', 'param', 'const') for n in flat)
                rep.ob('R-SHARED-PARSER', 'Dec-parses-the-token-text', src_ok and only, 'Dec! passes %s to the parser' % (str(o)[:300],), site=span_str(b.get('tspan')))
    jobs = [(-BIG, -19)] + [(e, e) for e in range(-18, 39)] + [(39, BIG)]
    run_jobs(rep, __name__, jobs)
    rep.floor('B-MACRO', 59)
    rep.floor('R-SHARED-PARSER', 4)
    rep.assume('NOT decided: proc_macro::TokenStream::to_string and the removal of the blank after a sign; the parser itself (C06 clause only)')
    rep.explanation = ('Clause decided: after the shared parser. Both Dec! and from_str call fpdec_core::str_to_dec exactly once on the literal text (who-calls rule + origin of the argument). '
                       'With the parser replaced by "any Err kind or Ok((c, e)), |c| <= 2^127-1, e in the cell", the post-processing of both sides is interpreted for each exponent cell '
                       '(-inf..-19, each of -18..38, 39..inf) in one shared term universe: the sets of outcomes - error kind incl. its overflow cause, or the pair (coefficient term, '
                       'n_frac_digits) which the macro interpolates into Decimal::new_raw(#coeff, #n_frac_digits) - must be equal, and equal to oracle A.10.')
    rep.trust('rustc nightly MIR (incl. the proc-macro crate); absint; quote!\'s interpolation order (ToTokens::to_tokens calls in source order)')
