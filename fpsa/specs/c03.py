"""C03: division yields the quotient correctly rounded to 18 fractional digits, normalised (oracle: Appendix A.4)."""
from ..absint import Interp, Opts, Agg, Int, K, ZERO, NONZERO, POS
from ..harness import (dec_coeff, M, T_DIV, T_CDIV, SCALES_QUICK, SCALES_ALL, dec_val, int_val, dec_parts, opt_parts, poly_eq, show_outcome,
                       show_poly, notes_of, get_db, run_jobs, find_root, query_trem)
from ..db import INT_TYPES9, span_str
from ..poly import padd, pscale, pconst, pmul, pfreeze
from ..rules import fwd
from .. import rounding
from ..rounding import value_is_rnd
from .c02 import decided, wide_note_matches

OPS = {'div': (T_DIV, 'div', False), 'checked_div': (T_CDIV, 'checked_div', True)}


def run_job(job):
    op, form, ty, p, q = job
    db = get_db()
    trait, meth, checked = OPS[op]
    targs = {'DD': ['Decimal', 'Decimal'], 'DI': ['Decimal', ty], 'ID': [ty, 'Decimal']}[form]
    fn = find_root(db, trait, targs, meth)
    I = Interp(db, Opts(summaries=rounding.all_caller_summaries(db)))
    st = I.new_state()
    if form == 'DD':
        xa, ya = dec_val(st, 'x', p), dec_val(st, 'y', q)
        xc, yc = dec_coeff(xa), dec_coeff(ya)
    elif form == 'DI':
        xa, ya = dec_val(st, 'x', p), int_val(st, 'y', ty)
        xc, yc = dec_coeff(xa), ya
        q = 0
    else:
        xa, ya = int_val(st, 'x', ty), dec_val(st, 'y', q)
        xc, yc = xa, dec_coeff(ya)
        p = 0
    I.call_root(st, fn, [xa, ya])
    outs = I.explore(st)
    X, Y = xc.p, yc.p
    sh = 18 + q - p
    En, Ed = pscale(X, 10 ** sh), Y
    bad = []
    n_val = 0
    for o in outs:
        s = o.state
        if o.kind == 'unknown':
            bad.append(show_outcome(o))
            continue
        zy = decided(s, Y, ZERO)
        zx = decided(s, X, ZERO)
        oney = decided(s, padd(Y, pconst(10 ** q), -1), ZERO)
        if zy is True:
            case = 'div0'
        elif zy is None:
            case = None
        elif zx is True:
            case = 'zero'
        elif zx is None:
            case = None
        elif oney is True:
            case = 'y=1'
        elif oney is None:
            case = None
        else:
            case = 'general'
        if case is None:
            bad.append('path does not decide the short-cut predicates: %s' % show_outcome(o))
            continue
        v = o.value
        failure = None
        if o.kind == 'panic':
            if checked:
                bad.append('checked_div can panic: %s' % show_outcome(o))
                continue
            if o.value in ('DecimalError::DivisionByZero', 'DecimalError::InternalOverflow'):
                failure = o.value.split('::')[1]
            else:
                bad.append('panic that is neither DivisionByZero nor InternalOverflow: %s' % show_outcome(o))
                continue
        elif checked:
            op_ = opt_parts(v)
            if op_ is None:
                bad.append('not an Option: %s' % show_outcome(o))
                continue
            if op_[0] == 'none':
                failure = 'none'
            else:
                v = op_[1]
        if case == 'div0':
            if failure not in ('DivisionByZero', 'none'):
                bad.append('zero divisor must panic with DivisionByZero / give None: %s' % show_outcome(o))
            continue
        if failure is not None:
            if failure == 'DivisionByZero':
                bad.append('DivisionByZero with a non-zero divisor')
            elif case != 'general':
                bad.append('failure on the short-cut path %s' % case)
            elif not wide_note_matches(s, o, En, Ed if s.sign(Y) <= POS else Ed):
                # the helper normalises the divisor's sign: compare both orientations
                from ..poly import pneg
                if not wide_note_matches(s, o, pneg(En), pneg(Ed)):
                    bad.append('overflow signal without the rounded quotient exceeding i128: %s' % show_outcome(o))
            continue
        dp = dec_parts(v)
        if dp is None:
            bad.append('not a Decimal: %s' % show_outcome(o))
            continue
        c, nfd = dp
        n_val += 1
        if nfd.lo != nfd.hi:
            bad.append('scale not constant on a path')
            continue
        f = nfd.lo
        if case == 'zero':
            if not (s.itv(c) == (0, 0) and f == 0):
                bad.append('0 / y must be (0, 0): %s' % show_outcome(o))
        elif case == 'y=1':
            if not (poly_eq(s, c.p, X) and f == p):
                bad.append('x / 1 must return the dividend unchanged: %s' % show_outcome(o))
        else:
            if not 0 <= f <= 18:
                bad.append('scale %d' % f)
                continue
            full = pscale(c.p, 10 ** (18 - f))
            Ey, Ex = (Ed, En) if s.sign(Y) <= POS else (None, None)
            if Ey is None:
                from ..poly import pneg
                Ex, Ey = pneg(En), pneg(Ed)
            ok, msg = value_is_rnd(s, full, Ex, Ey, 'thread')
            if not ok:
                bad.append('coefficient*10^%d: %s' % (18 - f, msg))
            # normalised: no trailing fractional zero, zero has scale 0
            if s.sign(c.p) == ZERO:
                if f != 0:
                    bad.append('zero quotient with scale %d' % f)
            elif f > 0:
                sg, _ = query_trem(s, c.p, 10)
                if sg is None or 0 in sg:
                    bad.append('scale %d but the coefficient %s may end in 0 (not normalised)' % (f, show_poly(s, c.p)))
    if n_val == 0:
        bad.append('no path returns a value')
    key = '%s;%s;%s;p=%d;q=%d' % (op, form, ty or '-', p, q)
    return [('B-DIV', key, not bad, '; '.join(bad[:3]) or 'paths=%d' % len(outs), span_str(fn.get('span')) if bad else None)]


def run(rep, tier):
    db = get_db()
    rep.tree_hash = db.tree_hash
    rep.configs = ['default']
    scales = SCALES_ALL if tier == 'thorough' else [0, 1, 2, 9, 17, 18]
    jobs = []
    for op in OPS:
        for p in scales:
            for q in scales:
                jobs.append((op, 'DD', None, p, q))
        for ty in (INT_TYPES9 if tier == 'thorough' else ['u8', 'i32', 'u64', 'i128']):
            for p in (SCALES_ALL if tier == 'thorough' else [0, 1, 18]):
                jobs.append((op, 'DI', ty, p, 0))
                jobs.append((op, 'ID', ty, 0, p))
    run_jobs(rep, __name__, jobs)
    rep.floor('B-DIV', len(jobs))
    left = fwd.run_ops(rep, db, [T_DIV, T_CDIV])
    for fn, base, why in left:
        rep.ob('R-FWD', 'default;nonforwarder;%s' % fn['id'], False, 'reference form is not a pure forwarder (%s)' % why)
    fwd.run_assign(rep, db, ['core::ops::arith::DivAssign'])
    rep.floor('R-FWD', 110)
    from . import deps
    deps.run(rep, tier, ('R', 'W-shifted'))      # proofs of the summaries this check relies on
    rep.explanation = ('Per scale pair the MIR of Div / CheckedDiv (Decimal and integer forms) is interpreted with symbolic coefficients and the proved rounding summaries: a zero divisor '
                       'gives DivisionByZero / None and nothing else does; 0/y = (0,0); x/1 = x unchanged; otherwise the returned (c, f) satisfies c*10^(18-f) = Rnd[thread](10^(18+q-p) x / y) '
                       '(cross-multiplied rationals, through the equalities recorded by the normalisation loop) with f = 0 or c mod 10 != 0; the only other failure is the rounded quotient '
                       'not fitting i128 (InternalOverflow / None). checked_div has no panic edge.')
    rep.assume('modulo the summaries R (proved in C05) and W (proved in C16 down to the unsigned 256-bit kernels, Knuth-D included; the relevant proofs are re-run here as DEP-* obligations)')
    rep.trust('rustc nightly MIR; absint transfer functions and callee models')
