"""C08: equality and ordering are by numeric value and form a total order.

For every scale cell the path condition of each return path must imply the
oracle's answer: cmp((x,p),(y,q)) = sign(10^(m-p) x - 10^(m-q) y) over the
integers (Appendix A.7).  partial_cmp never returns None, cmp has no panic edge.
"""
from ..absint import Interp, Opts, ByRef, Agg, OPTION, ORDERING, Int
from ..harness import (dec_coeff, M, SCALES_QUICK, SCALES_ALL, dec_val, int_val, opt_parts, show_outcome, show_poly, get_db, run_jobs,
                       find_root, split_bool)
from ..db import INT_TYPES9, span_str
from ..poly import padd, pscale
from ..rules import fwd, implshape
from .. import mir

T_PEQ = 'core::cmp::PartialEq'
T_PORD = 'core::cmp::PartialOrd'
T_ORD = 'core::cmp::Ord'


def run_job(job):
    cfg = 'default'
    lt = rt = 'Decimal'
    if len(job) > 5:
        kind, form, ty, p, q, cfg, lt, rt = job
    else:
        kind, form, ty, p, q = job
    db = get_db(cfg)
    if form == 'DD':
        targs = [lt, rt]
    elif form == 'DI':
        targs = ['Decimal', ty]
    else:
        targs = [ty, 'Decimal']
    if kind == 'cmp':
        fn = find_root(db, T_ORD, [lt], 'cmp')
    elif kind == 'partial_cmp':
        fn = find_root(db, T_PORD, targs, 'partial_cmp')
    else:
        fn = find_root(db, T_PEQ, targs, 'eq')
    I = Interp(db, Opts())
    st = I.new_state()
    if form == 'DD':
        xa, ya = dec_val(st, 'x', p, adt='fpdec::' + lt), dec_val(st, 'y', q, adt='fpdec::' + rt)
        xc, yc = dec_coeff(xa), dec_coeff(ya)
    elif form == 'DI':
        xa, ya = dec_val(st, 'x', p), int_val(st, 'y', ty)
        xc, yc = dec_coeff(xa), ya
        q = 0
    else:
        xa, ya = int_val(st, 'x', ty), dec_val(st, 'y', q)
        xc, yc = xa, dec_coeff(ya)
        p = 0
    m = max(p, q)
    D = padd(pscale(xc.p, 10 ** (m - p)), pscale(yc.p, 10 ** (m - q)), -1)    # a*x - b*y
    I.call_root(st, fn, [ByRef(xa), ByRef(ya)])
    outs = I.explore(st)
    key = '%s;%s;%s;p=%d;q=%d' % (kind, form, ty or '-', p, q)
    if cfg != 'default':
        key = '%s;%s<%s,%s>;p=%d;q=%d' % (cfg, kind, lt, rt, p, q)
    bad = []
    n_ret = 0
    for o in outs:
        s = o.state
        if o.kind != 'ret':
            bad.append('%s' % show_outcome(o))
            continue
        v = o.value
        n_ret += 1
        if kind in ('partial_cmp', 'cmp'):
            if kind == 'partial_cmp':
                op_ = opt_parts(v)
                if op_ is None or op_[0] == 'none':
                    bad.append('partial_cmp returns None / non-Option: %s' % show_outcome(o))
                    continue
                v = op_[1]
            if not (isinstance(v, Agg) and v.kind == ORDERING):
                bad.append('not an Ordering: %s' % show_outcome(o))
                continue
            want = v.variant - 1
            have = s.sign(D)
            if have != frozenset((want,)):
                bad.append('returns %s on a path where sign(%s) may be %s' % (['Less', 'Equal', 'Greater'][v.variant], show_poly(s, D), sorted(have)))
        else:
            parts = split_bool(o) if isinstance(v, Int) else None
            if parts is None:
                bad.append('eq result not decidable: %s' % show_outcome(o))
                continue
            for truth, s2 in parts:
                have = s2.sign(D)
                if truth and have != frozenset((0,)):
                    bad.append('eq is true on a path where %s may be non-zero (%s)' % (show_poly(s2, D), sorted(have)))
                if not truth and 0 in have:
                    bad.append('eq is false on a path where %s may be zero' % show_poly(s2, D))
    if n_ret == 0:
        bad.append('no returning path')
    return [('B-CMP' if cfg == 'default' else 'B-CMP-ARCHIVED', key, not bad, '; '.join(bad[:4]) if bad else 'paths=%d decide sign(%s)' % (len(outs), show_poly(st, D)), None)]


def run(rep, tier):
    db = get_db()
    rep.tree_hash = db.tree_hash
    rep.configs = ['default']
    scales = SCALES_ALL
    jobs = []
    for p in scales:
        for q in scales:
            for kind in ('partial_cmp', 'eq', 'cmp'):
                jobs.append((kind, 'DD', None, p, q))
    signed = [t for t in INT_TYPES9 if t.startswith('i')]
    for ty in INT_TYPES9:
        for p in scales:
            jobs.append(('eq', 'DI', ty, p, 0))
            jobs.append(('partial_cmp', 'DI', ty, p, 0))
            jobs.append(('partial_cmp', 'ID', ty, 0, p))
    run_jobs(rep, __name__, jobs)
    rep.floor('B-CMP', len(jobs))
    # int == Decimal forwards to Decimal == int with swapped operands
    n = 0
    for ty in INT_TYPES9:
        fn = db.find_impl_fn(T_PEQ, [ty, 'Decimal'], 'eq')
        base = db.find_impl_fn(T_PEQ, ['Decimal', ty], 'eq')
        key = 'default;PartialEq<%s,Decimal>' % ty
        if fn is None or base is None:
            rep.ob('R-FWD-REV', key, False, 'impl missing')
            continue
        sh, why = fwd.shape(fn)
        ok = sh is not None and sh['callee'] == base['id'] and sh['args'] == [('param', 2), ('param', 1)] and sh['ret'] == 'returned'
        rep.ob('R-FWD-REV', key, ok, '`int == Decimal` must be `Decimal == int` with swapped operands; found %s (%s)' % (sh, why), site=span_str(fn.get('span')))
        n += 1
    rep.floor('R-FWD-REV', 9)
    implshape.run(rep, db)
    rep.explanation = ('Abstract interpretation of eq / partial_cmp / cmp (Decimal x Decimal: all 361 scale pairs; integer forms: 19 scales x 9 types x both '
                       'positions) with symbolic coefficients over the whole range: on every return path the path condition (facts recorded at each branch, '
                       'including the three-way split fits/below/above at every checked multiplication) must imply that the sign of 10^(m-p)x - 10^(m-q)y is the '
                       'returned ordering; no path returns None or panics. R-IMPLSHAPE: <,<=,>,>=,min,max,!= are core\'s provided methods over these. '
                       'Order laws follow from agreement with the order of the rationals.')
    rep.trust('rustc nightly MIR; absint transfer functions and callee models; core\'s provided comparison methods')
    # the rkyv clause (feature-gated impls) is part of the statement: analysed in both tiers (configuration rkyv)
    from . import c08_rkyv
    c08_rkyv.run(rep)
