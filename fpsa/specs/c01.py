"""C01: addition and subtraction are exact or signal overflow.

Per scale cell the abstract outcome set of every base implementation must be
  { Return(coeff = a*x +- b*y as a polynomial term, n_frac_digits = max(p,q)) }
  u { failure whose cause is the overflow of a*x, b*y or of the sum/difference }
with a = 10^(m-p), b = 10^(m-q); the checked variants never panic.
Oracle: DESIGN.md Appendix A.2 (written from the statement, not from the code).
"""
from ..absint import Interp, Opts
from ..harness import (dec_coeff, M, T_ADD, T_SUB, T_CADD, T_CSUB, SCALES_QUICK, SCALES_ALL, dec_val, int_val, dec_parts, opt_parts,
                       poly_eq, show_outcome, show_poly, notes_of, get_db, run_jobs, find_root)
from ..db import INT_TYPES9
from ..poly import padd, pscale, pfreeze
from ..rules import fwd, table

OPS = {
    'add': (T_ADD, 'add', +1, False), 'sub': (T_SUB, 'sub', -1, False),
    'checked_add': (T_CADD, 'checked_add', +1, True), 'checked_sub': (T_CSUB, 'checked_sub', -1, True),
}


def targs_of(form, ty):
    return {'DD': ['Decimal', 'Decimal'], 'DI': ['Decimal', ty], 'ID': [ty, 'Decimal']}[form]


def run_job(job):
    op, form, ty, p, q = job
    db = get_db()
    trait, meth, sgn, checked = OPS[op]
    fn = find_root(db, trait, targs_of(form, ty), meth)
    I = Interp(db, Opts())
    st = I.new_state()
    if form == 'DD':
        xa, ya = dec_val(st, 'x', p), dec_val(st, 'y', q)
        xc, yc = dec_coeff(xa), dec_coeff(ya)
    elif form == 'DI':
        xa = dec_val(st, 'x', p)
        ya = int_val(st, 'y', ty)
        xc, yc = dec_coeff(xa), ya
        q = 0
    else:
        xa = int_val(st, 'x', ty)
        ya = dec_val(st, 'y', q)
        xc, yc = xa, dec_coeff(ya)
        p = 0
    m = max(p, q)
    a, b = 10 ** (m - p), 10 ** (m - q)
    X, Y = pscale(xc.p, a), pscale(yc.p, b)
    want = padd(X, Y, sgn)
    permitted = [pfreeze(want)]
    if a > 1:
        permitted.append(pfreeze(X))
    if b > 1:
        permitted.append(pfreeze(Y))
    I.call_root(st, fn, [xa, ya])
    outs = I.explore(st)
    key = '%s;%s;%s;p=%d;q=%d' % (op, form, ty or '-', p, q)
    bad = []
    saw_value = False
    for o in outs:
        s = o.state
        if o.kind == 'unknown':
            bad.append('analysis incomplete: %s' % show_outcome(o))
            continue
        if o.kind == 'panic':
            if checked:
                bad.append('checked variant can panic: %s' % show_outcome(o))
                continue
            term = (o.info or {}).get('term')
            if o.value == 'DecimalError::InternalOverflow':
                # explicit overflow signal: must be caused by the overflow of a permitted form
                ov = notes_of(o, 'overflows')
                if not ov or any(pfreeze(s.norm(dict(n[1]))) not in permitted for n in ov):
                    bad.append('InternalOverflow without overflow of a permitted form (notes %s)' % ([show_poly(s, dict(n[1])) for n in ov],))
            elif o.value != 'overflow' or term is None or pfreeze(s.norm(dict(term))) not in permitted:
                bad.append('panic that is not the overflow of a permitted form: %s' % show_outcome(o))
            continue
        v = o.value
        if checked:
            op_ = opt_parts(v)
            if op_ is None:
                bad.append('not an Option: %s' % show_outcome(o))
                continue
            ov = notes_of(o, 'overflows')
            if op_[0] == 'none':
                if not ov or any(pfreeze(s.norm(dict(n[1]))) not in permitted for n in ov):
                    bad.append('None without overflow of a permitted form (notes %s)' % ([show_poly(s, dict(n[1])) for n in ov],))
                continue
            if ov:
                bad.append('Some(..) although %s overflowed' % ([show_poly(s, dict(n[1])) for n in ov],))
                continue
            v = op_[1]
        dp = dec_parts(v)
        if dp is None:
            bad.append('not a Decimal: %s' % show_outcome(o))
            continue
        c, nfd = dp
        if not poly_eq(s, c.p, want):
            bad.append('coefficient %s, expected %s' % (show_poly(s, c.p), show_poly(s, want)))
        if (nfd.lo, nfd.hi) != (m, m):
            bad.append('n_frac_digits in [%s,%s], expected %d' % (nfd.lo, nfd.hi, m))
        saw_value = True
    if not saw_value:
        bad.append('no path returns a value')
    site = None
    return [('B-ADDSUB', key, not bad, '; '.join(bad) if bad else 'outcomes=%d coefficient=%s scale=%d' % (len(outs), show_poly(st, want), m), site)]


def run(rep, tier):
    db = get_db()
    rep.tree_hash = db.tree_hash
    rep.configs = ['default']
    scales = SCALES_QUICK if tier == 'quick' else SCALES_ALL
    jobs = []
    for op in OPS:
        for p in scales:
            for q in scales:
                jobs.append((op, 'DD', None, p, q))
        for ty in INT_TYPES9:
            for p in scales:
                jobs.append((op, 'DI', ty, p, 0))
                jobs.append((op, 'ID', ty, 0, p))
    run_jobs(rep, __name__, jobs)
    # reference and compound-assignment forms compute the same function (exact forwarders)
    traits = [T_ADD, T_SUB, T_CADD, T_CSUB]
    left = fwd.run_ops(rep, db, traits)
    for fn, base, why in left:
        rep.ob('R-FWD', 'default;nonforwarder;%s' % fn['id'], False, 'reference form is not a pure forwarder (%s) and is not analysed as a root' % why)
    fwd.run_assign(rep, db, ['core::ops::arith::AddAssign', 'core::ops::arith::SubAssign'])
    table.run(rep, db)
    rep.floor('B-ADDSUB', len(jobs))
    rep.floor('R-FWD', 200)
    rep.floor('R-FWD-ASSIGN', 2)
    rep.explanation = ('Abstract interpretation of the MIR of all 76 base impls of Add/Sub/CheckedAdd/CheckedSub, one run per scale cell with symbolic '
                       'coefficients over the whole range |c| <= 2^127-1 (integer operands over their whole type range): the returned coefficient is the '
                       'polynomial 10^(m-p)*x +- 10^(m-q)*y at scale m=max(p,q); every failure edge is the overflow of one of the three permitted forms; '
                       'checked variants have no panic edge. Reference/assign forms are exact forwarders (R-FWD); the power table is checked by R-TABLE.')
    rep.trust('rustc nightly MIR; absint transfer functions and callee models (DESIGN.md Appendix B)')
    rep.assume('dev-profile semantics (overflow checks on); release behaviour is C20')
