"""C07 (clause: the three renderings are one canonical string).

Decided: for every scale p and sign class of the coefficient, <Decimal as Display>::fmt under the default formatter (what
to_string() runs), String::from(Decimal) and the text between "Dec!(" and ")" of <Decimal as Debug>::fmt hand the *same*
sequence of pieces to core::fmt:
    ['-' iff x < 0]  [decimal rendering of I]  and, iff p > 0,  ['.']  [F zero-padded to width p]
with I >= 0, 0 <= F < 10^p and I*10^p + F = |x|.  Hence (core's integer formatting trusted: no leading zeros, zero padding to
the width) the string is: optional '-', the integer part, and iff p > 0 a '.' followed by exactly p digits.
Round trip: composition of this shape with C06's value and grammar clauses and C18's folding cells (premises re-run here as DEP
obligations; the composition argument is in DESIGN.md 12.10).
"""
from ..absint import Interp, Opts, ByRef, Agg, Int, Opaque, SliceVal, State, ZERO, NEG, POS, NONNEG, NONPOS
from ..harness import (dec_coeff, M, SCALES_ALL, dec_val, poly_eq, show_outcome, show_poly, get_db, run_jobs, notes_of)
from ..db import span_str
from ..poly import padd, pscale, pconst, pneg, Atoms
from .. import rounding

ZERO_PAD = 1 << 24
WIDTH_FLAG = 1 << 27
DEFAULT_FLAGS_MASK = (1 << 21) | (1 << 22) | (1 << 23) | (1 << 25) | (1 << 26) | (1 << 28)      # + - # x? X? precision: must be off


def roots(db):
    r = {'display': db.find_impl_fn('core::fmt::Display', ['Decimal'], 'fmt'), 'debug': db.find_impl_fn('core::fmt::Debug', ['Decimal'], 'fmt'), 'string': None}
    for f in db.fns.values():
        im = f.get('impl') or {}
        ta = im.get('trait_args') or []
        if im.get('trait') == 'core::convert::From' and len(ta) == 2 and ta[1] == 'Decimal' and ta[0].endswith('string::String') and f['name'] == 'from':
            r['string'] = f
    return r


class Bad(Exception):
    pass


def pieces_of(s, strv):
    """normalised piece list of a formatted string value on path s:
    ('lit', text) | ('num', poly, width or None, zero_pad) - decimal rendering of a non-negative integer term"""
    if not (isinstance(strv, Agg) and strv.kind == 'string'):
        raise Bad('not a formatted string: %r' % (strv,))
    tmpl = strv.variant
    args = strv.fields
    if tmpl is None:
        # to_string() of an integer: one display argument
        if len(args) == 1:
            tmpl = (('arg', 0, None, None, None),)
        else:
            raise Bad('format template not decodable')
    out = []
    for part in tmpl:
        if part[0] == 'lit':
            out.append(('lit', part[1]))
            continue
        _, idx, flags, width, prec = part
        if idx >= len(args) or prec is not None:
            raise Bad('placeholder %r outside the modelled subset' % (part,))
        a = args[idx]
        if not (isinstance(a, Agg) and a.kind == 'fmtarg:display'):
            raise Bad('argument %d is not formatted with Display: %r' % (idx, a))
        v = a.fields[0]
        w = None
        zp = False
        if flags is not None:
            if flags & DEFAULT_FLAGS_MASK or (flags & 0x1FFFFF) != 0x20:
                raise Bad('formatting flags %#x outside the modelled subset' % flags)
            zp = bool(flags & ZERO_PAD)
        if width is not None:
            if width[0] == 'const':
                w = width[1]
            else:
                wa = args[width[1]] if width[1] < len(args) else None
                if not (isinstance(wa, Agg) and wa.kind == 'fmtarg:usize' and isinstance(wa.fields[0], Int)):
                    raise Bad('indirect width is not a usize argument')
                lo, hi = s.itv(wa.fields[0])
                if lo != hi:
                    raise Bad('width not constant in this cell')
                w = lo
        if isinstance(v, SliceVal) and v.tag.startswith('str:'):
            if w:
                raise Bad('string argument with a width')
            out.append(('lit', v.tag[4:]))
        elif isinstance(v, Int):
            sg = s.sign(v.p)
            if sg <= NONNEG:
                out.append(('num', v.p, w, zp))
            elif sg <= NEG and not w:
                out.append(('lit', '-'))
                out.append(('num', pneg(v.p), None, False))
            else:
                raise Bad('sign of the integer argument %s undecided (or negative with a width)' % show_poly(s, v.p))
        else:
            raise Bad('argument value %r' % (v,))
    # merge literals
    norm = []
    for pc in out:
        if pc[0] == 'lit':
            if not pc[1]:
                continue
            if norm and norm[-1][0] == 'lit':
                norm[-1] = ('lit', norm[-1][1] + pc[1])
                continue
        norm.append(pc)
    return norm


def same_pieces(s, a, b):
    if len(a) != len(b):
        return False
    for x, y in zip(a, b):
        if x[0] != y[0]:
            return False
        if x[0] == 'lit':
            if x[1] != y[1]:
                return False
        elif not (poly_eq(s, x[1], y[1]) and (x[2] or 0) == (y[2] or 0) and (x[3] == y[3] or not (x[2] or 0))):
            return False
    return True


def show_pieces(s, pcs):
    return '[' + ', '.join(repr(p[1]) if p[0] == 'lit' else 'num(%s%s)' % (show_poly(s, p[1])[:80], (', width %s%s' % (p[2], ' zero-padded' if p[3] else '')) if p[2] else '') for p in pcs) + ']'


def run_job(job):
    return run_job_any(job)


def run_job_render(job):
    p, xcls = job
    db = get_db()
    rt = roots(db)
    key = 'p=%d;x=%s' % (p, xcls)
    if any(v is None for v in rt.values()):
        return [('B-RENDER', key, False, 'rendering impls not found: %s' % [k for k, v in rt.items() if v is None], None)]
    lo, hi = {'neg': (-M, -1), 'zero': (0, 0), 'pos': (1, M)}[xcls]
    bad = []
    opts = Opts(summaries=rounding.all_caller_summaries(db))
    opts.precision = None           # default formatter: no precision (to_string)
    I = Interp(db, opts)
    st0 = I.new_state()
    d = dec_val(st0, 'x', p, lo, hi)
    X = dec_coeff(d).p
    absx = pneg(X) if xcls == 'neg' else X

    def render(which, st):
        """outcomes of one rendering function started in state st (a path of the previous one): [(state, pieces)]"""
        fn = rt[which]
        st = st.clone()
        st.frames = []
        n0 = len(st.notes)
        args = [d] if which == 'string' else [ByRef(d), ByRef(Opaque('core::fmt::Formatter', 'form'))]
        I.call_root(st, fn, args)
        res = []
        outs = I.explore(st)
        if not outs:
            bad.append('%s: no outcome' % which)
        for o in outs:
            s = o.state
            if o.kind != 'ret':
                bad.append('%s: %s' % (which, show_outcome(o)[:200]))
                continue
            notes = s.notes[n0:]
            pads = [n for n in notes if n[0] == 'pad_integral']
            writes = [n for n in notes if n[0] == 'fmtwrite']
            try:
                if which == 'string':
                    if pads or writes:
                        raise Bad('String::from writes to a formatter')
                    pcs = pieces_of(s, o.value)
                elif which == 'display':
                    if len(pads) != 1 or writes:
                        raise Bad('Display must perform exactly one pad_integral and no other write')
                    _, nonneg, prefix, buf = pads[0]
                    if not (isinstance(prefix, SliceVal) and prefix.tag == 'str:'):
                        raise Bad('pad_integral prefix is not empty')
                    if not (isinstance(buf, Agg) and buf.kind == 'strref'):
                        raise Bad('pad_integral buffer is not a formatted string')
                    nlo, nhi = s.itv(nonneg) if isinstance(nonneg, Int) else (0, 1)
                    if nlo != nhi:
                        raise Bad('is_nonnegative undecided in a sign cell')
                    # default formatter (no width, no '+'): pad_integral writes '-' iff !is_nonnegative, then the buffer (core, trusted)
                    pcs = pieces_of_merge(([('lit', '-')] if nlo == 0 else []) + pieces_of(s, buf.fields[0]))
                else:
                    if len(writes) != 1 or len(writes[0]) < 3 or pads:
                        raise Bad('Debug must perform exactly one write_fmt')
                    pcs = pieces_of(s, writes[0][2])
                    if not (pcs and pcs[0][0] == 'lit' and pcs[0][1].startswith('Dec!(') and pcs[-1][0] == 'lit' and pcs[-1][1].endswith(')')):
                        raise Bad('Debug text is not Dec!(..): %s' % show_pieces(s, pcs))
                    pcs = list(pcs)
                    pcs[0] = ('lit', pcs[0][1][5:])
                    pcs[-1] = ('lit', pcs[-1][1][:-1])
                    pcs = pieces_of_merge(pcs)
            except Bad as e:
                bad.append('%s: %s' % (which, e))
                continue
            res.append((s, pcs))
        return res

    shown = None
    n_chain = 0
    # the three functions are run one after the other on the same path, so the outputs are compared under one common path condition
    for s1, ref in render('display', st0):
        shown = shown or show_pieces(s1, ref)
        # canonical shape
        pcs = list(ref)
        if xcls == 'neg':
            if not (pcs and pcs[0] == ('lit', '-')):
                bad.append('negative value without a leading "-": %s' % show_pieces(s1, ref))
            pcs = pcs[1:]
        if p == 0:
            if not (len(pcs) == 1 and pcs[0][0] == 'num' and not pcs[0][2] and poly_eq(s1, pcs[0][1], absx)):
                bad.append('scale 0: expected [digits of |x|], found %s' % show_pieces(s1, pcs))
        elif not (len(pcs) == 3 and pcs[0][0] == 'num' and not pcs[0][2] and pcs[1] == ('lit', '.') and pcs[2][0] == 'num' and pcs[2][2] == p and pcs[2][3]):
            bad.append('expected [int, ".", frac zero-padded to %d], found %s' % (p, show_pieces(s1, pcs)))
        else:
            Iv, Fv = pcs[0][1], pcs[2][1]
            if not poly_eq(s1, padd(pscale(Iv, 10 ** p), Fv), absx):
                bad.append('int*10^%d + frac != |x|: int=%s frac=%s' % (p, show_poly(s1, Iv), show_poly(s1, Fv)))
            if not (s1.sign(Fv) <= NONNEG and s1.sign(padd(Fv, pconst(10 ** p), -1)) <= NEG and s1.sign(Iv) <= NONNEG):
                bad.append('0 <= frac < 10^%d, int >= 0 not established' % p)
        for s2, pcs2 in render('string', s1):
            if not same_pieces(s2, pcs2, ref):
                bad.append('String::from renders %s but Display renders %s' % (show_pieces(s2, pcs2), show_pieces(s2, ref)))
            for s3, pcs3 in render('debug', s2):
                n_chain += 1
                if not same_pieces(s3, pcs3, ref):
                    bad.append('Debug renders Dec!(%s) but Display renders %s' % (show_pieces(s3, pcs3), show_pieces(s3, ref)))
    if not n_chain and not bad:
        bad.append('no common path of the three renderings')
    results = {'display': [(st0, [])]}
    return [('B-RENDER', key, not bad, '; '.join(bad[:3]) or 'chains=%d: Display = String::from = Debug text = %s' % (n_chain, shown),
             span_str(rt['display'].get('span')) if bad else None)]


def pieces_of_merge(pcs):
    norm = []
    for pc in pcs:
        if pc[0] == 'lit':
            if not pc[1]:
                continue
            if norm and norm[-1][0] == 'lit':
                norm[-1] = ('lit', norm[-1][1] + pc[1])
                continue
        norm.append(pc)
    return norm


def dep_job(job):
    """premises of the round-trip argument, re-run here: the parser's value and grammar clauses (C06) and the folding of (c, -p) into a Decimal (C18)"""
    from . import c06, c18
    kind, j = job
    res = c06.run_job(j) if kind == 'c06' else c18.run_job(j)
    return [('DEP-' + r, k, ok, d, s) for (r, k, ok, d, s) in res]


def run_job_any(job):
    if job and job[0] in ('c06', 'c18'):
        return dep_job(job)
    return run_job_render(job)


def run(rep, tier):
    db = get_db()
    rep.tree_hash = db.tree_hash
    rep.configs = ['default']
    rep.level = 'other'
    jobs = [(p, xc) for p in SCALES_ALL for xc in ('neg', 'zero', 'pos')]
    deps = [('c06', ('value+grammar', None))] + [('c18', (e, e)) for e in range(-18, 1)]
    run_jobs(rep, __name__, deps + jobs)
    rep.floor('B-RENDER', len(jobs))
    rep.floor('DEP-V-PARSE-VALUE', 1)
    rep.floor('DEP-G-PARSE-GRAMMAR', 1)
    rep.floor('DEP-B-MACRO', 19)
    # the canonical shape is a literal of the parser's grammar (DFA of C06), for every scale and sign
    from .c06 import grammar_verdict
    for p in SCALES_ALL:
        for neg in (False, True):
            toks = ([('CH', 45)] if neg else []) + [('digits',)] + ([('CH', 46), ('digits',)] if p > 0 else []) + [('END',)]
            mv, mi, complete = grammar_verdict(toks)
            rep.ob('R-SHAPE-IN-GRAMMAR', 'p=%d;%s' % (p, 'neg' if neg else 'nonneg'), mv and not mi and complete, 'the canonical rendering ["-"] digits ["." digits] must be a complete literal of the grammar')
    rep.floor('R-SHAPE-IN-GRAMMAR', 38)
    # the string conversions the serde attributes and users go through forward to from_str
    from ..rules import fwd
    fs = db.find_impl_fn('core::str::traits::FromStr', ['Decimal'], 'from_str')
    for src in ('&str', 'std::string::String'):
        fn = db.find_impl_fn('core::convert::TryFrom', ['Decimal', src], 'try_from')
        sh, why = fwd.shape_multi(fn) if fn else (None, 'missing')
        ok = bool(sh) and sh[-1]['callee'] == (fs or {}).get('id') and sh[-1]['ret'] == 'returned' and len(sh) <= 2
        rep.ob('R-FWD-STR', 'TryFrom<%s>' % src, ok, 'forwards to from_str: %s (%s)' % (sh, why))
    # to_string() is core's blanket impl over Display (no inherent / specialised to_string on Decimal)
    own = [f['id'] for f in db.fns.values() if f['name'] == 'to_string' and f['crate'] in ('fpdec', 'fpdec_core')]
    rep.ob('R-TOSTRING-BLANKET', 'no-own-to_string', not own, 'Decimal::to_string must be the blanket ToString over Display; found %s' % own)
    rep.assume('ROUND TRIP (composition argument, DESIGN.md 12.10; its premises are obligations of this check): the rendering is ["-" iff x < 0] digits(int) ["." digits(frac) of exactly p digits iff p > 0] with '
               'int*10^p + frac = |x| (B-RENDER); this shape is a complete literal of the grammar (R-SHAPE-IN-GRAMMAR); for complete literals the parser returns Ok((c, e)) with c = +-D, sign from the sign byte, '
               'e = -(number of fractional digits) and D the digits read as one number (DEP-V-PARSE-VALUE, DEP-G-PARSE-GRAMMAR, under contract A of the scanners); positional notation: D = int*10^p + frac = |x| '
               '(trusted arithmetic of decimal numerals, core prints int and the zero-padded frac in decimal); from_str folds (c, -p) into Decimal(c, p) (DEP-B-MACRO cells e = -18..0). Hence parse(render(d)) has the '
               'coefficient and the fractional digit count of d. serde-as-str: the derive with into = "String" / try_from = "String" (serde, trusted) uses String::from and TryFrom<String>, which forwards to from_str (R-FWD-STR).')
    rep.assume('core::fmt semantics trusted: integer Display prints a non-negative integer without leading zeros and "-" + |v| for negative v; {:0w$} pads with zeros to width w; '
               'Formatter::pad_integral under the default formatter (no width, no flags) writes "-" iff !is_nonnegative and then the buffer; template encoding of fmt::Arguments as documented in core (nightly used for extraction)')
    rep.explanation = ('Clause decided: the three renderings are one canonical string. Per scale (19) x sign class (3) the MIR of Display::fmt (default formatter, i.e. to_string), String::from(Decimal) and '
                       'Debug::fmt is interpreted with a symbolic coefficient; the formatting machinery is modelled structurally (decoded format_args! template + argument terms); the piece lists of the three '
                       'are equal (Debug after stripping "Dec!(" and ")"), and have the canonical shape: "-" iff x < 0, int, and iff p > 0 "." and frac zero-padded to width p, with int*10^p + frac = |x|, 0 <= frac < 10^p.')
    rep.trust('rustc nightly MIR; absint; core::fmt (see assumptions)')
