"""C16: wide arithmetic - signed wrappers, rounding helpers and the unsigned kernels including Knuth's algorithm D.

S  i128_shifted_div_mod_floor(x, p, y) / i256_div_mod_floor(x1, x2, y): Some((q, r)) with q*y + r = x*10^p (x1*x2),
   r in [0, y) for y > 0 (resp. (y, 0] for y < 0), None only if |floor quotient| > i128::MAX.
W  i128_shifted_div_rounded / i128_mul_div_ten_pow_rounded = RoundSpec(mode, N/D) or None iff it does not fit.
U  u128_mul_u128, u256_idiv_u64 and the dispatch in u256_idiv_u128 are proved against the summaries (U) used for S and W;
   u256_idiv_u128_special (Knuth D) is proved per normalisation shift against the summary U' the dispatch proof uses.
"""
import re
from ..absint import Interp, Opts, Agg, Int, K, OPTION, NEG, ZERO, POS, NONNEG, NONPOS
from ..harness import (M, show_outcome, show_poly, get_db, run_jobs, opt_parts, poly_eq)
from ..db import span_str
from ..poly import padd, pscale, pconst, pmul, pneg, pfreeze
from .. import rounding, mir
from ..rounding import MODES, check_rounded, round_inc, Undecided, mode_names, u_summaries
from .c05 import mode_arg, core_fn, CORE, MIN, MAX
from .. import roles, conv

SIGNS = {'neg': (MIN, -1), 'zero': (0, 0), 'pos': (1, M)}
TWO127 = 2**127


def quotient_at_least(s, absN, absD, bound):
    """the truncated quotient |N| / |D| (the atom formed by the analysis; semantic identity) is >= bound on path s"""
    from ..poly import patom, pis_const
    cd = pis_const(s.norm(absD))
    if cd is not None and cd > 0:
        lo, hi = s.range_of(absN)
        if lo is not None and lo // cd >= bound:
            return True
    for A in (absN, s.norm(absN)):
        for B in (absD, s.norm(absD)):
            a = s.atoms.lookup(('tdiv', pfreeze(A), pfreeze(B)))
            if a is not None:
                lo, hi = s.range_of(patom(a))
                if lo is not None and lo >= bound:
                    return True
    return False


def job_floor_wide(db, job):
    _, which, p, sx, sy, s2 = job
    I = Interp(db, Opts(summaries=u_summaries()))
    st = I.new_state()
    if which == 'shifted':
        fn = core_fn(db, 'fpdec_core::i128_shifted_div_mod_floor')
        x = st.sym('x', *SIGNS[sx])
        y = st.sym('y', *SIGNS[sy])
        args = [x, K(p, 'u8'), y]
        N = pscale(x.p, 10 ** p)
    else:
        fn = core_fn(db, 'fpdec_core::i256_div_mod_floor')
        x = st.sym('x1', *SIGNS[sx])
        x2 = st.sym('x2', *SIGNS[s2])
        y = st.sym('y', *SIGNS[sy])
        args = [x, x2, y]
        N = pmul(x.p, x2.p)
    I.call_root(st, fn, args)
    outs = I.explore(st)
    bad = []
    ypos = sy == 'pos'
    nsome = 0
    for o in outs:
        s = o.state
        if o.kind != 'ret':
            bad.append(show_outcome(o))
            continue
        op_ = opt_parts(o.value)
        if op_ is None:
            bad.append('not an Option: %s' % show_outcome(o))
            continue
        if op_[0] == 'none':
            # permitted only if the floor quotient's magnitude exceeds i128::MAX: |N| >= 2^127 * |y|
            absN = N if s.sign(N) <= NONNEG else pneg(N)
            absY = y.p if ypos else pneg(y.p)
            if not quotient_at_least(s, absN, absY, TWO127):
                bad.append('None on a path where |N| / |y| is not known to reach 2^127')
            continue
        v = op_[1]
        if not (isinstance(v, Agg) and len(v.fields) == 2):
            bad.append(show_outcome(o))
            continue
        nsome += 1
        Q, R = v.fields
        if not poly_eq(s, padd(pmul(Q.p, y.p), R.p), N):
            bad.append('q*y + r != N: q=%s r=%s N=%s' % (show_poly(s, Q.p), show_poly(s, R.p), show_poly(s, N)))
            continue
        if ypos:
            ok = s.sign(R.p) <= NONNEG and s.sign(padd(R.p, y.p, -1)) <= NEG
        else:
            ok = s.sign(R.p) <= NONPOS and s.sign(padd(R.p, y.p, -1)) <= POS
        if not ok:
            bad.append('remainder r=%s outside %s: sign(r) %s, sign(r - y) %s' % (show_poly(s, R.p), '[0, y)' if ypos else '(y, 0]', sorted(s.sign(R.p)), sorted(s.sign(padd(R.p, y.p, -1)))))
    if nsome == 0:
        bad.append('no Some path')
    cell = '%s;p=%s;x=%s;%sy=%s' % (which, p, sx, ('x2=%s;' % s2) if which != 'shifted' else '', sy)
    return [('S-WIDE-FLOOR', cell, not bad, '; '.join(bad[:3]) or 'paths=%d' % len(outs), span_str(fn.get('span')) if bad else None)]


def job_wide_rounded(db, job):
    _, which, p, mode, via_none, sx, sy, s2 = job
    marg, midx = mode_arg(db, mode, via_none)
    summ = dict(u_summaries())
    summ[rounding.default_mode_fn(db)['id']] = rounding.summ_default_mode
    I = Interp(db, Opts(summaries=summ, mode=midx))
    st = I.new_state()
    if which == 'shifted':
        fn = core_fn(db, CORE + 'i128_shifted_div_rounded')
        x = st.sym('x', *SIGNS[sx])
        y = st.sym('y', *SIGNS[sy])
        args = [x, K(p, 'u8'), y, marg]
        N, D = pscale(x.p, 10 ** p), y.p
        if sy == 'neg':
            N, D = pneg(N), pneg(D)
    else:
        fn = core_fn(db, CORE + 'i128_mul_div_ten_pow_rounded')
        x = st.sym('x', *SIGNS[sx])
        x2 = st.sym('y', *SIGNS[s2])
        args = [x, x2, K(p, 'u8'), marg]
        N, D = pmul(x.p, x2.p), pconst(10 ** p)
    I.call_root(st, fn, args)
    outs = I.explore(st)
    bad = []
    nsome = 0
    for o in outs:
        s = o.state
        if o.kind == 'panic':
            bad.append('panic edge: %s' % show_outcome(o))
            continue
        if o.kind != 'ret':
            bad.append(show_outcome(o))
            continue
        op_ = opt_parts(o.value)
        if op_ is None:
            bad.append('not an Option: %s' % show_outcome(o))
            continue
        if op_[0] == 'none':
            absN = N if s.sign(N) <= NONNEG else pneg(N)
            if quotient_at_least(s, absN, D, TWO127):
                continue
            # or: the floor quotient is exactly i128::MAX and the mode increments it
            ov = [n for n in s.notes if n[0] == 'overflows']
            okn = False
            if len(ov) == 1 and s.sign(N) <= NONNEG and quotient_at_least(s, absN, D, MAX):
                Qp = padd(dict(ov[0][1]), pconst(1), -1)
                FR = s.norm(padd(N, pmul(Qp, D), -1))
                try:
                    okn = s.sign(padd(Qp, pconst(MAX), -1)) == ZERO and s.sign(FR) <= NONNEG and s.sign(padd(FR, D, -1)) <= NEG and round_inc(mode, s, Qp, FR, D) == 1
                except Undecided:
                    okn = False
            if not okn:
                bad.append('None on a path where neither |N| / D reaches 2^127 nor the quotient i128::MAX is incremented')
            continue
        nsome += 1
        ok, msg = check_rounded(s, op_[1].p, N, D, mode)
        if not ok:
            bad.append(msg)
    if nsome == 0:
        bad.append('no Some path')
    cell = '%s;p=%s;%s;%s;x=%s;%s' % (which, p, mode, 'None' if via_none else 'Some', sx, ('y=%s' % sy) if which == 'shifted' else ('x2=%s' % s2))
    return [('W-WIDE-ROUNDED', cell, not bad, '; '.join(bad[:3]) or 'paths=%d' % len(outs), span_str(fn.get('span')) if bad else None)]


TWO128 = 2**128


def summ_special(I, st, args, fid):
    """(U', proved by the 'special' cells) u256_idiv_u128_special on (xh, xl, y) with xh < y: quotient words (0, Q) and remainder r, where
    xh*2^128 + xl = Q*y + r, 0 <= r < y (so Q < 2^128).  The precondition is an obligation at every call site.  Inputs and outputs are read /
    delivered by the function's own calling convention (conv.div_conv)."""
    from ..absint import Stop
    from .. import conv
    cv = conv.div_conv(I.db, I.db.fns[fid], 'SPECIAL')
    xh, xl, y = cv.summ_inputs(I, st, args)
    if not st.sign(padd(xh.p, y.p, -1)) <= NEG:
        raise Stop("contract U': precondition xh < y of u256_idiv_u128_special not established at the call site")
    W = st.norm(padd(pscale(xh.p, TWO128), xl.p))
    Q = I.tdiv_atom(st, W, st.norm(y.p))
    R = st.norm(padd(W, pmul(Q, st.norm(y.p)), -1))
    q = I.mk(st, 'u128', Q, 0, TWO128 - 1)
    return cv.summ_finish(I, st, args, [K(0, 'u128'), q, I.mk(st, 'u128', R, 0, None)])


def job_kernel(db, job):
    """the unsigned kernels themselves: schoolbook multiplication, short division and the dispatch of the long division"""
    from ..absint import ByRef
    _, which, ycls = job
    bad = []
    if which == 'mul':
        fn = roles.fn(db, 'MUL')
        I = Interp(db, Opts())
        st = I.new_state()
        x, y = st.sym('x', 0, TWO128 - 1, 'u128'), st.sym('y', 0, TWO128 - 1, 'u128')
        cv = conv.mul_conv(db, fn)
        I.call_root(st, fn, cv.build_args(x, y))
        outs = I.explore(st)
        for o in outs:
            s = o.state
            res = cv.read_outputs(o) if o.kind == 'ret' else None
            if res is None:
                bad.append(show_outcome(o)[:300])
                continue
            rh, rl = res
            if not poly_eq(s, padd(pscale(rh.p, TWO128), rl.p), pmul(x.p, y.p)):
                bad.append('hi*2^128 + lo != x*y: hi=%s lo=%s' % (show_poly(s, rh.p)[:200], show_poly(s, rl.p)[:200]))
    elif which == 'special':
        # Knuth's algorithm D (4-by-2 words), one cell per normalisation shift n = 127 - msb(y): the shifts are then concrete,
        # the two quotient-digit loops unroll (at most two corrections each, decided by intervals).  Products of unknowns are
        # handled by the opt-in tactics of absint (multiplier saturation, relational quotient bounds, polyhedral bounds over
        # monomials by an exact dual simplex) - every one a sound inference; no position-dependent hint is supplied.
        from ..poly import patoms
        n = ycls
        fn = roles.fn(db, 'SPECIAL')
        I = Interp(db, Opts(max_paths=4000))
        st = I.new_state()
        st.decomp_depth = 1
        y = st.sym('y', 2 ** (127 - n), 2 ** (128 - n) - 1, 'u128')
        xh = st.sym('xh', 0, 2 ** (128 - n) - 2, 'u128') if n < 127 else K(0, 'u128')
        xl = st.sym('xl', 0, TWO128 - 1, 'u128')
        st.assume(padd(xh.p, y.p, -1), NEG)          # precondition *xh < y
        st.tactics = {'mult': sorted(patoms(y.p)), 'relb': [pscale(y.p, 2 ** n)], 'lp': 1}
        cv = conv.div_conv(db, fn, 'SPECIAL')
        I.call_root(st, fn, cv.build_args(xh, xl, y))
        outs = I.explore(st)
        X = padd(pscale(xh.p, TWO128), xl.p)
        for o in outs:
            s = o.state
            res = cv.read_outputs(o) if o.kind == 'ret' else None
            if res is None:
                bad.append(show_outcome(o)[:300])
                continue
            qh, ql, r = res
            if s.itv(qh) != (0, 0):
                bad.append('*xh is not set to 0')
            elif not poly_eq(s, padd(pmul(ql.p, y.p), r.p), X):
                bad.append('ql*y + r != xh*2^128 + xl: ql=%s r=%s' % (show_poly(s, ql.p)[:150], show_poly(s, r.p)[:150]))
            elif not (s.sign(r.p) <= NONNEG and s.sign(padd(r.p, y.p, -1)) <= NEG):
                bad.append('0 <= r < y not established: r=%s' % show_poly(s, r.p)[:200])
        ycls = 'n=%d' % n
    else:
        if which == 'div64':
            fn = roles.fn(db, 'DIV64')
            opts = Opts()
            yr = (1, 2**64 - 1, 'u64')
        else:
            fn = roles.fn(db, 'DIV')
            opts = Opts(summaries={roles.resolve(db, 'SPECIAL'): summ_special})
            yr = {'short': (1, 2**64 - 1, 'u128'), 'long': (2**64, TWO128 - 1, 'u128')}[ycls]
        I = Interp(db, opts)
        st = I.new_state()
        xh, xl = st.sym('xh', 0, TWO128 - 1, 'u128'), st.sym('xl', 0, TWO128 - 1, 'u128')
        y = st.sym('y', *yr)
        cv = conv.div_conv(db, fn, 'DIV64' if which == 'div64' else 'DIV')
        I.call_root(st, fn, cv.build_args(xh, xl, y))
        outs = I.explore(st)
        X = padd(pscale(xh.p, TWO128), xl.p)
        for o in outs:
            s = o.state
            res = cv.read_outputs(o) if o.kind == 'ret' else None
            if res is None:
                bad.append(show_outcome(o)[:300])
                continue
            qh, ql, r = res
            if not poly_eq(s, padd(pmul(padd(pscale(qh.p, TWO128), ql.p), y.p), r.p), X):
                bad.append('(qh*2^128 + ql)*y + r != xh*2^128 + xl: qh=%s ql=%s r=%s' % (show_poly(s, qh.p)[:150], show_poly(s, ql.p)[:150], show_poly(s, r.p)[:150]))
            elif not (s.sign(r.p) <= NONNEG and s.sign(padd(r.p, y.p, -1)) <= NEG):
                bad.append('0 <= r < y not established: r=%s' % show_poly(s, r.p)[:200])
    if not outs:
        bad.append('no path')
    cell = which + ((';' + ycls) if which == 'special' else (';y=' + ycls) if ycls else '')
    return [('U-KERNEL', cell, not bad, '; '.join(bad[:3]) or 'paths=%d' % len(outs), span_str(fn.get('span')) if bad else None)]


def private_helper(db, fid):
    """a private function of fpdec-core: it can only be reached through the public entry points, which are analysed with their callees inlined"""
    f = db.fns.get(fid)
    return f is not None and f['crate'] == 'fpdec_core' and 'Public' not in str(f.get('vis'))


KERNEL_JOBS = [('U', 'mul', None), ('U', 'div64', None), ('U', 'dispatch', 'short'), ('U', 'dispatch', 'long')]
SPECIAL_QUICK = tuple(sorted(set((0, 1, 2, 31, 62, 63, 64, 65, 100, 126, 127)) | set(range(0, 128, 5))))


def kernel_jobs(tier, dep=False):
    """the proofs of the unsigned kernels; Knuth-D per normalisation shift (all 128 in the thorough tier)"""
    ns = (0, 3, 63) if dep else (range(128) if tier == 'thorough' else SPECIAL_QUICK)
    return KERNEL_JOBS + [('U', 'special', n) for n in ns]


def run_job(job):
    db = get_db()
    return {'S': job_floor_wide, 'W': job_wide_rounded, 'U': job_kernel}[job[0]](db, job)


def run(rep, tier):
    db = get_db()
    rep.tree_hash = db.tree_hash
    rep.configs = ['default']
    ps = list(range(39)) if tier == 'thorough' else [0, 1, 18, 19, 37, 38]
    jobs = []
    for p in ps:
        for sx in ('neg', 'zero', 'pos'):
            for sy in ('neg', 'pos'):
                jobs.append(('S', 'shifted', p, sx, sy, None))
    for sx in ('neg', 'zero', 'pos'):
        for s2 in ('neg', 'zero', 'pos'):
            jobs.append(('S', 'muldiv', '-', sx, 'pos', s2))
    wps = ps if tier == 'thorough' else [1, 19, 38]
    for mode in MODES:
        for via_none in (False, True):
            for p in wps:
                for sx in ('neg', 'pos'):
                    for sy in ('neg', 'pos'):
                        jobs.append(('W', 'shifted', p, mode, via_none, sx, sy, None))
                    for s2 in ('neg', 'pos'):
                        jobs.append(('W', 'muldiv', p, mode, via_none, sx, None, s2))
    kj = kernel_jobs(tier)
    jobs = kj + jobs         # the long cells first
    run_jobs(rep, __name__, jobs)
    rep.floor('U-KERNEL', len(kj))
    rep.floor('S-WIDE-FLOOR', 6 * len(ps) + 9)
    rep.floor('W-WIDE-ROUNDED', 16 * len(wps) * 6)
    # who may call the unsigned kernels (their contracts' preconditions are established at exactly these call sites)
    W = ('fpdec_core::i128_shifted_div_mod_floor', 'fpdec_core::i256_div_mod_floor')
    DIV = roles.resolve(db, 'DIV')
    may_call = {roles.resolve(db, 'MUL'): W, DIV: W, roles.resolve(db, 'DIV64'): (DIV,), roles.resolve(db, 'SPECIAL'): (DIV,)}
    for f in db.fns.values():
        ordn = {}
        for bi, t, blk in mir.iter_calls(f):
            fid, path, _ = mir.callee(t)
            if fid in may_call:
                ordn[fid] = ordn.get(fid, 0) + 1
                rep.ob('R-WHO-CALLS-U', '%s;calls;%s#%d' % (f['id'], fid, ordn[fid]), (re.sub(r'(::\{closure#\d+\})+$', '', f['id']) in may_call[fid] or private_helper(db, re.sub(r'(::\{closure#\d+\})+$', '', f['id']))),
                       'the unsigned 256-bit kernels may only be reached through the callers analysed here', site=span_str(blk.get('tspan')))
    rep.floor('R-WHO-CALLS-U', 5)
    rep.assume("no contract is left assumed: summary U' of u256_idiv_u128_special (*xh < y: (*xh, *xl) := (0, Q), returns r, xh*2^128 + xl = Q*y + r, 0 <= r < y), used by the dispatch proof, "
               'is itself proved per normalisation shift (U-KERNEL special;n=..); its precondition is established at both call sites. That the proved postconditions determine the '
               'summaries used by the callers (Q = floor(X / y)) is the uniqueness of Euclidean division.')
    rep.explanation = ('Clause decided: the two signed wrappers and the two wide rounding helpers over the summaries U of the unsigned kernels, and those summaries themselves (U-KERNEL: the 128x128 schoolbook '
                       'multiplication, the 256/64 short division and the dispatch of the 256/128 division are interpreted with symbolic words and satisfy their defining identities; Knuth\'s algorithm D (u256_idiv_u128_special) is proved per normalisation shift n = 127 - msb(y) - all 128 '
                       'in the thorough tier - with both quotient-digit loops unrolled: no panic edge (overflow checks, debug_assert) and ql*y + r = xh*2^128 + xl, 0 <= r < y, *xh = 0 on every path; '
                       'products of unknowns are handled by sound opt-in tactics: multiplier saturation of branch facts, relational quotient bounds, wrapping results tracked modulo 2^128, and '
                       'polyhedral bounds over monomials from an exact, self-certifying dual simplex). '
                       'Per cell (shift p, signs of the operands [, mode]) the MIR is interpreted with symbolic operands: Some((q, r)) paths must satisfy q*y + r = N exactly as polynomials '
                       'and the remainder range for the divisor\'s sign - including exact divisions; None paths must imply |N| >= 2^127*|y|; the rounded helpers must equal '
                       'RoundSpec(mode, N/D) by the same fact-based oracle as C05 and must not have a panic edge.')
    rep.trust('rustc nightly MIR; absint transfer functions incl. the opt-in non-linear tactics and fpsa/lp.py (every LP bound is re-checked as a certificate); uniqueness of Euclidean division')
