"""C16 (clause: signed wrappers of the wide arithmetic, given contract U of the unsigned kernels).

S  i128_shifted_div_mod_floor(x, p, y) / i256_div_mod_floor(x1, x2, y): Some((q, r)) with q*y + r = x*10^p (x1*x2),
   r in [0, y) for y > 0 (resp. (y, 0] for y < 0), None only if |floor quotient| > i128::MAX.
W  i128_shifted_div_rounded / i128_mul_div_ten_pow_rounded = RoundSpec(mode, N/D) or None iff it does not fit.
The multiword kernels u128_mul_u128 and u256_idiv_u128 are replaced by their contract (U) - NOT decided here.
"""
from ..absint import Interp, Opts, Agg, Int, K, OPTION, NEG, ZERO, POS, NONNEG, NONPOS
from ..harness import (M, show_outcome, show_poly, get_db, run_jobs, opt_parts, poly_eq)
from ..db import span_str
from ..poly import padd, pscale, pconst, pmul, pneg, pfreeze
from .. import rounding, mir
from ..rounding import MODES, check_rounded, round_inc, Undecided, mode_names, u_summaries
from .c05 import mode_arg, core_fn, CORE, MIN, MAX

SIGNS = {'neg': (MIN, -1), 'zero': (0, 0), 'pos': (1, M)}
TWO127 = 2**127


def quotient_at_least(s, absN, absD, bound):
    """the truncated quotient |N| / |D| (the atom formed by the analysis; semantic identity) is >= bound on path s"""
    from ..poly import patom, pis_const
    cd = pis_const(s.norm(absD))
    if cd is not None and cd > 0:
        lo, hi = s.range_of(absN)
        if lo is not None and lo // cd >= bound:
            return True
    for A in (absN, s.norm(absN)):
        for B in (absD, s.norm(absD)):
            a = s.atoms.lookup(('tdiv', pfreeze(A), pfreeze(B)))
            if a is not None:
                lo, hi = s.range_of(patom(a))
                if lo is not None and lo >= bound:
                    return True
    return False


def job_floor_wide(db, job):
    _, which, p, sx, sy, s2 = job
    I = Interp(db, Opts(summaries=u_summaries()))
    st = I.new_state()
    if which == 'shifted':
        fn = core_fn(db, 'fpdec_core::i128_shifted_div_mod_floor')
        x = st.sym('x', *SIGNS[sx])
        y = st.sym('y', *SIGNS[sy])
        args = [x, K(p, 'u8'), y]
        N = pscale(x.p, 10 ** p)
    else:
        fn = core_fn(db, 'fpdec_core::i256_div_mod_floor')
        x = st.sym('x1', *SIGNS[sx])
        x2 = st.sym('x2', *SIGNS[s2])
        y = st.sym('y', *SIGNS[sy])
        args = [x, x2, y]
        N = pmul(x.p, x2.p)
    I.call_root(st, fn, args)
    outs = I.explore(st)
    bad = []
    ypos = sy == 'pos'
    nsome = 0
    for o in outs:
        s = o.state
        if o.kind != 'ret':
            bad.append(show_outcome(o))
            continue
        op_ = opt_parts(o.value)
        if op_ is None:
            bad.append('not an Option: %s' % show_outcome(o))
            continue
        if op_[0] == 'none':
            # permitted only if the floor quotient's magnitude exceeds i128::MAX: |N| >= 2^127 * |y|
            absN = N if s.sign(N) <= NONNEG else pneg(N)
            absY = y.p if ypos else pneg(y.p)
            if not quotient_at_least(s, absN, absY, TWO127):
                bad.append('None on a path where |N| / |y| is not known to reach 2^127')
            continue
        v = op_[1]
        if not (isinstance(v, Agg) and len(v.fields) == 2):
            bad.append(show_outcome(o))
            continue
        nsome += 1
        Q, R = v.fields
        if not poly_eq(s, padd(pmul(Q.p, y.p), R.p), N):
            bad.append('q*y + r != N: q=%s r=%s N=%s' % (show_poly(s, Q.p), show_poly(s, R.p), show_poly(s, N)))
            continue
        if ypos:
            ok = s.sign(R.p) <= NONNEG and s.sign(padd(R.p, y.p, -1)) <= NEG
        else:
            ok = s.sign(R.p) <= NONPOS and s.sign(padd(R.p, y.p, -1)) <= POS
        if not ok:
            bad.append('remainder r=%s outside %s: sign(r) %s, sign(r - y) %s' % (show_poly(s, R.p), '[0, y)' if ypos else '(y, 0]', sorted(s.sign(R.p)), sorted(s.sign(padd(R.p, y.p, -1)))))
    if nsome == 0:
        bad.append('no Some path')
    cell = '%s;p=%s;x=%s;%sy=%s' % (which, p, sx, ('x2=%s;' % s2) if which != 'shifted' else '', sy)
    return [('S-WIDE-FLOOR', cell, not bad, '; '.join(bad[:3]) or 'paths=%d' % len(outs), span_str(fn.get('span')) if bad else None)]


def job_wide_rounded(db, job):
    _, which, p, mode, via_none, sx, sy, s2 = job
    marg, midx = mode_arg(db, mode, via_none)
    summ = dict(u_summaries())
    summ[rounding.default_mode_fn(db)['id']] = rounding.summ_default_mode
    I = Interp(db, Opts(summaries=summ, mode=midx))
    st = I.new_state()
    if which == 'shifted':
        fn = core_fn(db, CORE + 'i128_shifted_div_rounded')
        x = st.sym('x', *SIGNS[sx])
        y = st.sym('y', *SIGNS[sy])
        args = [x, K(p, 'u8'), y, marg]
        N, D = pscale(x.p, 10 ** p), y.p
        if sy == 'neg':
            N, D = pneg(N), pneg(D)
    else:
        fn = core_fn(db, CORE + 'i128_mul_div_ten_pow_rounded')
        x = st.sym('x', *SIGNS[sx])
        x2 = st.sym('y', *SIGNS[s2])
        args = [x, x2, K(p, 'u8'), marg]
        N, D = pmul(x.p, x2.p), pconst(10 ** p)
    I.call_root(st, fn, args)
    outs = I.explore(st)
    bad = []
    nsome = 0
    for o in outs:
        s = o.state
        if o.kind == 'panic':
            bad.append('panic edge: %s' % show_outcome(o))
            continue
        if o.kind != 'ret':
            bad.append(show_outcome(o))
            continue
        op_ = opt_parts(o.value)
        if op_ is None:
            bad.append('not an Option: %s' % show_outcome(o))
            continue
        if op_[0] == 'none':
            absN = N if s.sign(N) <= NONNEG else pneg(N)
            if quotient_at_least(s, absN, D, TWO127):
                continue
            # or: the floor quotient is exactly i128::MAX and the mode increments it
            ov = [n for n in s.notes if n[0] == 'overflows']
            okn = False
            if len(ov) == 1 and s.sign(N) <= NONNEG and quotient_at_least(s, absN, D, MAX):
                Qp = padd(dict(ov[0][1]), pconst(1), -1)
                FR = s.norm(padd(N, pmul(Qp, D), -1))
                try:
                    okn = s.sign(padd(Qp, pconst(MAX), -1)) == ZERO and s.sign(FR) <= NONNEG and s.sign(padd(FR, D, -1)) <= NEG and round_inc(mode, s, Qp, FR, D) == 1
                except Undecided:
                    okn = False
            if not okn:
                bad.append('None on a path where neither |N| / D reaches 2^127 nor the quotient i128::MAX is incremented')
            continue
        nsome += 1
        ok, msg = check_rounded(s, op_[1].p, N, D, mode)
        if not ok:
            bad.append(msg)
    if nsome == 0:
        bad.append('no Some path')
    cell = '%s;p=%s;%s;%s;x=%s;%s' % (which, p, mode, 'None' if via_none else 'Some', sx, ('y=%s' % sy) if which == 'shifted' else ('x2=%s' % s2))
    return [('W-WIDE-ROUNDED', cell, not bad, '; '.join(bad[:3]) or 'paths=%d' % len(outs), span_str(fn.get('span')) if bad else None)]


def run_job(job):
    db = get_db()
    return {'S': job_floor_wide, 'W': job_wide_rounded}[job[0]](db, job)


def run(rep, tier):
    db = get_db()
    rep.tree_hash = db.tree_hash
    rep.configs = ['default']
    ps = list(range(39)) if tier == 'thorough' else [0, 1, 18, 19, 37, 38]
    jobs = []
    for p in ps:
        for sx in ('neg', 'zero', 'pos'):
            for sy in ('neg', 'pos'):
                jobs.append(('S', 'shifted', p, sx, sy, None))
    for sx in ('neg', 'zero', 'pos'):
        for s2 in ('neg', 'zero', 'pos'):
            jobs.append(('S', 'muldiv', '-', sx, 'pos', s2))
    wps = ps if tier == 'thorough' else [1, 19, 38]
    for mode in MODES:
        for via_none in (False, True):
            for p in wps:
                for sx in ('neg', 'pos'):
                    for sy in ('neg', 'pos'):
                        jobs.append(('W', 'shifted', p, mode, via_none, sx, sy, None))
                    for s2 in ('neg', 'pos'):
                        jobs.append(('W', 'muldiv', p, mode, via_none, sx, None, s2))
    run_jobs(rep, __name__, jobs)
    rep.floor('S-WIDE-FLOOR', 6 * len(ps) + 9)
    rep.floor('W-WIDE-ROUNDED', 16 * len(wps) * 6)
    # the callers' precondition of i256_div_mod_floor (y > 0) and who may call the U kernels
    ukern = ('fpdec_core::u128_mul_u128', 'fpdec_core::u256_idiv_u128')
    wrappers = ('fpdec_core::i128_shifted_div_mod_floor', 'fpdec_core::i256_div_mod_floor')
    for f in db.fns.values():
        for bi, t, blk in mir.iter_calls(f):
            fid, path, _ = mir.callee(t)
            if fid in ukern:
                rep.ob('R-WHO-CALLS-U', '%s;calls;%s' % (f['id'], fid), f['id'] in wrappers,
                       'the unsigned 256-bit kernels may only be reached through the two signed wrappers analysed here', site=span_str(blk.get('tspan')))
    rep.floor('R-WHO-CALLS-U', 4)
    rep.assume('CONTRACT U (assumed, NOT decided by this check): u128_mul_u128(x,y) returns (hi,lo) with hi*2^128+lo = x*y; u256_idiv_u128 replaces (xh,xl) by the quotient '
               'of the 256-bit value by y > 0 and returns the remainder < y. The schoolbook multiplication and the Knuth-D division themselves are outside the reach of the abstract domains.')
    rep.explanation = ('Clause decided: the two signed wrappers and the two wide rounding helpers, with the unsigned multiword kernels replaced by their contract U. '
                       'Per cell (shift p, signs of the operands [, mode]) the MIR is interpreted with symbolic operands: Some((q, r)) paths must satisfy q*y + r = N exactly as polynomials '
                       'and the remainder range for the divisor\'s sign - including exact divisions; None paths must imply |N| >= 2^127*|y|; the rounded helpers must equal '
                       'RoundSpec(mode, N/D) by the same fact-based oracle as C05 and must not have a panic edge.')
    rep.trust('rustc nightly MIR; absint transfer functions; contract U (see assumptions)')
