"""C11 (numeric clause): what Display::fmt hands to core::fmt is the correctly rounded value, the requested number of digits and the sign.

For every (p, precision) cell each path of <Decimal as Display>::fmt must end in exactly one Formatter::pad_integral(is_nonnegative, "", buf)
where is_nonnegative is `coeff >= 0` of the unrounded value and buf is built from the display arguments
   [I, F, width W]  with  W = prec, I*10^prec + F = T, 0 <= F < 10^prec        (prec > 0)
   [I]              with  I = T                                                (prec = 0)
T = |x| * 10^(prec-p) for prec >= p, T = |Rnd[thread](x / 10^(p-prec))| for prec < p, prec = min(P, 18) or p when absent.
NOT decided: core::fmt's rendering of the template "{}.{:0width$}" and of pad_integral (width, fill, alignment, '+', '0' flags).
"""
from ..absint import Interp, Opts, ByRef, Agg, Int, K, Opaque, SliceVal, ZERO, NEG, POS, NONNEG, NONPOS
from ..harness import (dec_coeff, M, SCALES_ALL, dec_val, poly_eq, show_outcome, show_poly, show_value, get_db, run_jobs, notes_of)
from ..db import span_str
from ..poly import padd, pscale, pconst, pmul, pneg
from ..rules import taint
from .. import rounding
from ..rounding import value_is_rnd


def abs_of(s, vp, xp):
    """is polynomial vp == |xp| on path s?"""
    sx = s.sign(xp)
    if sx <= NONNEG and poly_eq(s, vp, xp):
        return True
    if sx <= NONPOS and poly_eq(s, vp, pneg(xp)):
        return True
    return False


def run_job(job):
    p, P = job
    db = get_db()
    fn = db.find_impl_fn('core::fmt::Display', ['Decimal'], 'fmt')
    if fn is None:
        return [('B-FMT', 'p=%d;P=%s' % (p, P), False, 'impl Display for Decimal not found', None)]
    opts = Opts(summaries=rounding.all_caller_summaries(db))
    opts.precision = P
    I = Interp(db, opts)
    st = I.new_state()
    d = dec_val(st, 'x', p)
    X = dec_coeff(d).p
    I.call_root(st, fn, [ByRef(d), ByRef(Opaque('core::fmt::Formatter', 'form'))])
    outs = I.explore(st)
    prec = p if P is None else min(P, 18)
    bad = []
    for o in outs:
        s = o.state
        if o.kind != 'ret':
            bad.append(show_outcome(o)[:300])
            continue
        pads = notes_of(o, 'pad_integral')
        writes = notes_of(o, 'fmtwrite')
        if len(pads) != 1 or writes:
            bad.append('must perform exactly one Formatter::pad_integral and no other write: %d pad_integral, other writes %s' % (len(pads), [w[1] for w in writes]))
            continue
        _, nonneg, prefix, buf = pads[0]
        # sign from the unrounded value
        okn = False
        if isinstance(nonneg, Int):
            lo, hi = s.itv(nonneg)
            if lo == hi:
                sx = s.sign(X)
                okn = (lo == 1 and sx <= NONNEG) or (lo == 0 and sx <= NEG)
            elif nonneg.cond is not None and nonneg.cond[0] == 'sign':
                okn = nonneg.cond[2] == NONNEG and poly_eq(s, nonneg.cond[1], X)
        if not okn:
            bad.append('is_nonnegative is not `coeff >= 0` of the unrounded value: %r cond=%r' % (nonneg, getattr(nonneg, 'cond', None)))
        if not (isinstance(prefix, SliceVal) and prefix.tag == 'str:'):
            bad.append('prefix is not the empty string: %r' % (prefix,))
        if not (isinstance(buf, Agg) and buf.kind == 'strref' and isinstance(buf.fields[0], Agg) and buf.fields[0].kind == 'string'):
            bad.append('buffer is not a formatted string: %s' % show_value(s, buf)[:200])
            continue
        fargs = buf.fields[0].fields
        kinds = [a.kind if isinstance(a, Agg) else '?' for a in fargs]
        # target value T
        if prec >= p:
            target = None       # |x| * 10^(prec-p)
        if prec > 0:
            if kinds != ['fmtarg:display', 'fmtarg:display', 'fmtarg:usize']:
                bad.append('expected arguments [int, frac, width], found %s' % kinds)
                continue
            Iv, Fv, Wv = [fa.fields[0] for fa in fargs]
            if not (isinstance(Wv, Int) and s.itv(Wv) == (prec, prec)):
                bad.append('zero-padding width %s, expected %d' % (show_value(s, Wv), prec))
            Tp = padd(pscale(Iv.p, 10 ** prec), Fv.p)
            if not (s.sign(Fv.p) <= NONNEG and s.sign(padd(Fv.p, pconst(10 ** prec), -1)) <= NEG):
                bad.append('fraction argument %s not within [0, 10^%d)' % (show_poly(s, Fv.p), prec))
        else:
            if kinds != ['fmtarg:display']:
                bad.append('expected the single argument [int], found %s' % kinds)
                continue
            Tp = fargs[0].fields[0].p
        if prec >= p:
            if not abs_of(s, Tp, pscale(X, 10 ** (prec - p))):
                bad.append('digits %s are not |x| * 10^%d' % (show_poly(s, Tp), prec - p))
        else:
            # Tp must be |c| with c = Rnd[thread](x / 10^(p-prec)), rounding applied to the signed value
            okc = False
            msgs = []
            for cand in (Tp, pneg(Tp)):
                ok, msg = value_is_rnd(s, cand, X, pconst(10 ** (p - prec)), 'thread')
                msgs.append(msg)
                if ok:
                    sc = s.sign(cand)
                    if (cand is Tp and sc <= NONNEG) or (cand is not Tp and sc <= NONPOS):
                        okc = True
            if not okc:
                bad.append('digits %s are not |Rnd(x / 10^%d)|: %s' % (show_poly(s, Tp), p - prec, msgs[0]))
    if not outs:
        bad.append('no outcome')
    return [('B-FMT', 'p=%d;P=%s' % (p, P), not bad, '; '.join(bad[:3]) or 'paths=%d' % len(outs), span_str(fn.get('span')) if bad else None)]


def run(rep, tier):
    db = get_db()
    rep.tree_hash = db.tree_hash
    rep.configs = ['default']
    rep.level = 'other'
    precs = [None] + list(range(0, 20)) + [40]
    jobs = [(p, P) for p in SCALES_ALL for P in precs]
    run_jobs(rep, __name__, jobs)
    rep.floor('B-FMT', len(jobs))
    # the rounding helper call in fmt must receive the signed, unrounded coefficient
    fn = db.find_impl_fn('core::fmt::Display', ['Decimal'], 'fmt')
    class Sub:
        pass
    n = taint.round_once(rep, db, only_prefix='fpdec::format::')
    rep.assume('NOT decided: the text produced by core::fmt for the template "{}.{:0width$}" and by Formatter::pad_integral (width, fill, alignment, + and 0 flags); '
               'Debug and String::from (C07) are not covered')
    from . import deps
    deps.run(rep, tier, ('R',))      # proofs of the summaries this check relies on
    rep.explanation = ('Numeric clause: for all 19 scales x {absent, 0..19, 40} precisions the MIR of Display::fmt is interpreted with a symbolic coefficient and the formatting machinery '
                       'modelled structurally: every path ends in exactly one Formatter::pad_integral(coeff >= 0 of the unrounded value, "", buf); buf is formatted from [int, frac, width] '
                       'with width = min(P,18) (or p), int*10^prec + frac = |x|*10^(prec-p) resp. |Rnd[thread](x/10^(p-prec))| (rounding applied to the signed value, single rounding), '
                       '0 <= frac < 10^prec, and from [int] alone when prec = 0. R-ROUND-ONCE / R-SIGN-BEFORE-ROUND hold at the rounding-helper call site of format.rs.')
    rep.trust('rustc nightly MIR; absint; summaries R (C05); core::fmt (template rendering, pad_integral)')
