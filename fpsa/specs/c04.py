"""C04: mul_rounded, div_rounded and quantize round the exact result once, per mode (oracle: Appendix A.3 / A.4)."""
from ..absint import Interp, Opts, Agg, Int, K, ZERO, NONZERO, POS
from ..harness import (dec_coeff, M, T_DIVR, T_MULR, SCALES_QUICK, SCALES_ALL, dec_val, int_val, dec_parts, opt_parts, poly_eq, show_outcome,
                       show_poly, notes_of, get_db, run_jobs, find_root)
from ..db import INT_TYPES9, span_str
from ..poly import padd, pscale, pconst, pmul, pneg, pfreeze
from ..rules import fwd, taint
from .. import rounding, mir
from ..rounding import value_is_rnd
from .c02 import decided, wide_note_matches


def run_job(job):
    op, form, ty, p, q, n = job
    db = get_db()
    if op == 'mul_rounded':
        fn = find_root(db, T_MULR, ['Decimal', 'Decimal'], 'mul_rounded')
    else:
        targs = {'DD': ['Decimal', 'Decimal'], 'DI': ['Decimal', ty], 'ID': [ty, 'Decimal'], 'II': [ty, ty]}[form]
        fn = find_root(db, T_DIVR, targs, 'div_rounded')
    I = Interp(db, Opts(summaries=rounding.all_caller_summaries(db)))
    st = I.new_state()
    if form in ('DD', 'DI'):
        xa = dec_val(st, 'x', p)
        xc = dec_coeff(xa)
    else:
        xa = int_val(st, 'x', ty)
        xc = xa
        p = 0
    if form in ('DD', 'ID'):
        ya = dec_val(st, 'y', q)
        yc = dec_coeff(ya)
    else:
        ya = int_val(st, 'y', ty)
        yc = ya
        q = 0
    if isinstance(n, tuple):
        narg = st.sym('n', n[0], n[1], 'u8')
        nrej = True
    else:
        narg = K(n, 'u8')
        nrej = n > 18
    I.call_root(st, fn, [xa, ya, narg])
    outs = I.explore(st)
    X, Y = xc.p, yc.p
    bad = []
    n_val = 0
    for o in outs:
        s = o.state
        if o.kind == 'unknown':
            bad.append(show_outcome(o))
            continue
        if nrej:
            ok = o.kind == 'panic' and (o.value == 'DecimalError::MaxNFracDigitsExceeded' or (o.value == 'DecimalError::DivisionByZero' and decided(s, Y, ZERO) is True))
            if not ok:
                bad.append('n_frac_digits > 18 must be rejected with MaxNFracDigitsExceeded: %s' % show_outcome(o)[:300])
            continue
        v = o.value
        failure = None
        if o.kind == 'panic':
            if o.value in ('DecimalError::DivisionByZero', 'DecimalError::InternalOverflow'):
                failure = o.value.split('::')[1]
            elif o.value == 'Overflow' and (o.info or {}).get('op') == 'Div' and op == 'div_rounded' and s.sign(padd(X, pconst(2**127))) == ZERO:
                continue     # i128::MIN / -1: the quotient 2^127 is not representable, `/` panics in every profile
            else:
                bad.append('unexpected panic: %s' % show_outcome(o))
                continue
        zx = decided(s, X, ZERO)
        zy = decided(s, Y, ZERO)
        if op == 'mul_rounded':
            XY = pmul(X, Y)
            if zx is True or zy is True:
                case = 'zero'
            elif zx is None or zy is None:
                bad.append('zero test undecided: %s' % show_outcome(o))
                continue
            else:
                case = 'general'
            if failure is not None:
                if failure != 'InternalOverflow' or case == 'zero':
                    bad.append('unexpected failure: %s' % show_outcome(o))
                elif n >= p + q:
                    if not any(poly_eq(s, dict(nt[1]), XY) for nt in notes_of(o, 'overflows')):
                        bad.append('InternalOverflow without overflow of x*y')
                elif not wide_note_matches(s, o, XY, pconst(10 ** (p + q - n))):
                    bad.append('InternalOverflow without the rounded product exceeding i128')
                continue
            dp = dec_parts(v)
            if dp is None:
                bad.append('not a Decimal: %s' % show_outcome(o))
                continue
            c, nfd = dp
            sc = (nfd.lo, nfd.hi)
            n_val += 1
            if case == 'zero':
                if not (s.itv(c) == (0, 0) and sc == (0, 0)):
                    bad.append('zero operand must give (0,0): %s' % show_outcome(o))
            elif n >= p + q:
                if not (poly_eq(s, c.p, XY) and sc == (p + q, p + q)):
                    bad.append('expected exact product at scale %d: %s' % (p + q, show_outcome(o)))
            else:
                ok, msg = value_is_rnd(s, c.p, XY, pconst(10 ** (p + q - n)), 'thread')
                if not ok or sc != (n, n):
                    bad.append('expected Rnd(x*y/10^%d) at scale %d: %s, scale %s' % (p + q - n, n, msg, sc))
            continue
        # div_rounded
        if zy is True:
            if failure != 'DivisionByZero':
                bad.append('zero divisor must panic with DivisionByZero: %s' % show_outcome(o))
            continue
        if zy is None:
            bad.append('zero-divisor test undecided: %s' % show_outcome(o))
            continue
        if zx is None:
            bad.append('zero-dividend test undecided: %s' % show_outcome(o))
            continue
        sh = n + q - p
        if sh >= 0:
            En, Ed = pscale(X, 10 ** sh), Y
        else:
            En, Ed = X, pscale(Y, 10 ** (-sh))
        if not s.sign(Y) <= POS:
            En, Ed = pneg(En), pneg(Ed)
        if failure is not None:
            if failure != 'InternalOverflow' or zx is True:
                bad.append('unexpected failure: %s' % show_outcome(o))
            elif not wide_note_matches(s, o, En, Ed):
                bad.append('InternalOverflow without the rounded quotient exceeding i128: %s' % show_outcome(o)[:200])
            continue
        dp = dec_parts(v)
        if dp is None:
            bad.append('not a Decimal: %s' % show_outcome(o))
            continue
        c, nfd = dp
        sc = (nfd.lo, nfd.hi)
        n_val += 1
        if zx is True:
            if not (s.itv(c) == (0, 0) and sc == (0, 0)):
                bad.append('zero dividend must give (0,0): %s' % show_outcome(o))
            continue
        ok, msg = value_is_rnd(s, c.p, En, Ed, 'thread')
        if not ok:
            bad.append('not the single rounding of the exact quotient: %s' % msg)
        if sc != (n, n):
            bad.append('scale %s, expected %d' % (sc, n))
    if n_val == 0 and not nrej:
        bad.append('no path returns a value')
    if not outs:
        bad.append('no outcome')
    key = '%s;%s;%s;p=%d;q=%d;n=%s' % (op, form, ty or '-', p, q, n if not isinstance(n, tuple) else '%d..%d' % n)
    return [('B-ROUNDED-OPS', key, not bad, '; '.join(bad[:3]) or 'paths=%d' % len(outs), span_str(fn.get('span')) if bad else None)]


def quantize_shape(rep, db):
    """quantize(q) is `Mul::mul(DivRounded::div_rounded(self, q, 0), q)`"""
    c = [f for f in db.fns.values() if f['impl'] and f['impl']['trait'] == 'fpdec::quantize::Quantize' and f['name'] == 'quantize']
    rep.ob('R-QUANTIZE', 'generic-impl-exists', len(c) == 1, 'impl<T, Q> Quantize<Q> for T: %s' % [f['id'] for f in c])
    if len(c) != 1:
        return
    fn = c[0]
    du = mir.DefUse(fn)
    o = mir.origin(fn, {'copy': {'local': 0, 'proj': []}}, du)
    live = mir.reachable_blocks(fn)
    ncalls = sum(1 for bi, t, b in mir.iter_calls(fn) if bi in live)
    branch = any(isinstance(fn['blocks'][b]['term'], dict) and 'switch' in fn['blocks'][b]['term'] for b in live)
    ok = False
    detail = str(o)[:400]
    if o[0] == 'call' and o[1] == 'core::ops::arith::Mul::mul' and len(o[3]) == 2 and ncalls == 2 and not branch:
        inner, second = o[3]
        if (inner[0] == 'call' and inner[1] == 'fpdec::binops::div_rounded::DivRounded::div_rounded' and len(inner[3]) == 3
                and inner[3][0] == ('param', 1) and inner[3][1] == ('param', 2) and inner[3][2][0] == 'const' and inner[3][2][1].get('int') == '0'
                and second == ('param', 2)):
            ok = True
    rep.ob('R-QUANTIZE', 'quantize-is-div_rounded(q,0)*q', ok,
           'x.quantize(q) must be exactly DivRounded::div_rounded(x, q, 0) * q (so that it is the multiple of q nearest to x under the mode iff div_rounded(.., 0) and * are right); found %s' % detail,
           site=span_str(fn.get('span')))


def run(rep, tier):
    db = get_db()
    rep.tree_hash = db.tree_hash
    rep.configs = ['default']
    sc = SCALES_ALL if tier == 'thorough' else SCALES_QUICK
    jobs = []
    for p in sc:
        for q in sc:
            for n in sc:
                jobs.append(('div_rounded', 'DD', None, p, q, n))
                jobs.append(('mul_rounded', 'DD', None, p, q, n))
    tys = INT_TYPES9 if tier == 'thorough' else ['u8', 'i32', 'i128']
    for ty in tys:
        for p in sc:
            for n in sc:
                jobs.append(('div_rounded', 'DI', ty, p, 0, n))
                jobs.append(('div_rounded', 'ID', ty, 0, p, n))
        for n in sc:
            jobs.append(('div_rounded', 'II', ty, 0, 0, n))
    # rejection of n > 18 for every implementation
    for nrej in (19, (20, 255)):
        for ty in INT_TYPES9:
            for form in ('DI', 'ID', 'II'):
                jobs.append(('div_rounded', form, ty, 2 if form == 'DI' else 0, 3 if form == 'ID' else 0, nrej))
        jobs.append(('div_rounded', 'DD', None, 2, 3, nrej))
        jobs.append(('mul_rounded', 'DD', None, 2, 3, nrej))
    run_jobs(rep, __name__, jobs)
    rep.floor('B-ROUNDED-OPS', len(jobs))
    left = fwd.run_ops(rep, db, [T_DIVR, T_MULR])
    for fn, base, why in left:
        rep.ob('R-FWD', 'default;nonforwarder;%s' % fn['id'], False, 'reference form is not a pure forwarder (%s)' % why)
    rep.floor('R-FWD', 80)
    quantize_shape(rep, db)
    from . import deps
    deps.run(rep, tier, ('R', 'W'))      # proofs of the summaries this check relies on
    rep.explanation = ('Per (p, q, n) cell - quick: the 5^3 boundary cells, thorough: all 19^3 - and per operand form (Decimal/Decimal, Decimal/int, int/Decimal, int/int) the MIR of '
                       'div_rounded / mul_rounded is interpreted with symbolic operands and the proved rounding summaries: n > 18 is rejected by every implementation; a zero divisor panics; '
                       'otherwise the result is the single term Rnd[thread](exact rational) at scale exactly n (exact product at scale p+q when n >= p+q; (0,0) for a zero operand); '
                       'quantize is div_rounded(q, 0) * q by shape.')
    rep.assume('modulo the summaries R (proved in C05) and W (proved in C16 down to the unsigned 256-bit kernels, Knuth-D included; the relevant proofs are re-run here as DEP-* obligations)')
    rep.trust('rustc nightly MIR; absint transfer functions and callee models')
