"""C09: hash agrees with equality; as_integer_ratio is the reduced fraction.

Decided: (1) <Decimal as Hash>::hash hashes exactly as_integer_ratio() (a pair of i128) into the caller's hasher;
(2) as_integer_ratio() = (numerator(), denominator()) = (x/g, 10^p/g) as terms over g = gcd_special(x, p), with the
integer / zero short-cut (x, 1); (3) the assertions inside gcd_special cannot fire at its three call sites;
(4) the denominator is positive; (5) gcd_special(x, e) = gcd(|x|, 10^e): binary-gcd loop proved with a supplied
loop invariant over the textbook gcd identities (L1, L2 - trusted).
"""
from ..absint import Interp, Opts, Agg, Int, K, State, PanicExc, Stop, ZERO, NONZERO, POS, Infeasible, ByRef, Opaque
from ..harness import (dec_coeff, M, SCALES_ALL, dec_val, poly_eq, show_outcome, show_poly, get_db, run_jobs)
from ..db import span_str
from ..poly import padd, pscale, pconst, pmul, patom, pfreeze, Atoms
from ..rules import fwd
from .. import mir

T_RATIO = 'fpdec::as_integer_ratio::AsIntegerRatio'
from .. import roles


def GCDID(db):
    return roles.resolve(db, 'GCD')


def summ_gcd(I, st, args, fid):
    """(G, assumed) gcd_special(numer, exp) = g with 1 <= g <= min(|numer|, 10^exp); preconditions numer != 0, exp <= 38 (the function asserts them)"""
    numer, exp = args
    if 0 in st.sign(numer.p):
        raise PanicExc('assert', {'fn': fid, 'what': 'assert_ne!(numer, 0) may fire'})
    elo, ehi = st.itv(exp)
    if ehi > 38:
        raise PanicExc('assert', {'fn': fid, 'what': 'assert!(denom_exp <= 38) may fire'})
    if elo != ehi:
        raise Stop('symbolic exponent')
    a = st.atoms.get(('gcd', pfreeze(st.norm(numer.p)), elo))
    st._jset('bounds', a, (1, 10 ** elo))
    return I.mk(st, 'i128', patom(a))


def run_job(job):
    db = get_db()
    if job[0] == 'gcd':
        return job_gcd(db, job)
    p, xcls = job
    atoms = Atoms()
    lo, hi = {'neg': (-M, -1), 'zero': (0, 0), 'pos': (1, M)}[xcls]
    res = {}
    bad = []
    I = Interp(db, Opts(summaries={GCDID(db): summ_gcd}))
    x_poly = None
    for meth in ('as_integer_ratio', 'numerator', 'denominator'):
        fn = db.find_impl_fn(T_RATIO, ['Decimal'], meth)
        if fn is None:
            return [('B-RATIO', 'p=%d;x=%s' % (p, xcls), False, 'impl AsIntegerRatio for Decimal::%s not found' % meth, None)]
        st = State(atoms)
        d = dec_val(st, 'x', p, lo, hi)
        x_poly = dec_coeff(d).p
        I.call_root(st, fn, [d])
        outs = I.explore(st)
        if len(outs) != 1 or outs[0].kind != 'ret':
            bad.append('%s: %s' % (meth, [show_outcome(o)[:200] for o in outs]))
            continue
        res[meth] = outs[0]
    if len(res) == 3:
        r = res['as_integer_ratio']
        v = r.value
        s = r.state
        if not (isinstance(v, Agg) and len(v.fields) == 2):
            bad.append('as_integer_ratio does not return a pair')
        else:
            n, dd = v.fields
            if not poly_eq(s, n.p, res['numerator'].value.p):
                bad.append('numerator() = %s but as_integer_ratio().0 = %s' % (show_poly(s, res['numerator'].value.p), show_poly(s, n.p)))
            if not poly_eq(s, dd.p, res['denominator'].value.p):
                bad.append('denominator() = %s but as_integer_ratio().1 = %s' % (show_poly(s, res['denominator'].value.p), show_poly(s, dd.p)))
            if p == 0 or xcls == 'zero':
                if not (poly_eq(s, n.p, x_poly) and s.itv(dd) == (1, 1)):
                    bad.append('integer / zero value must have the ratio (x, 1): got (%s, %s)' % (show_poly(s, n.p), show_poly(s, dd.p)))
            else:
                g = atoms.lookup(('gcd', pfreeze(x_poly), p))
                if g is None:
                    bad.append('gcd_special not applied to (coeff, n_frac_digits)')
                else:
                    gq = atoms.lookup(('tdiv', pfreeze(x_poly), pfreeze(patom(g))))
                    gd = atoms.lookup(('tdiv', pfreeze(pconst(10 ** p)), pfreeze(patom(g))))
                    if gq is None or gd is None or not poly_eq(s, n.p, patom(gq)) or not poly_eq(s, dd.p, patom(gd)):
                        bad.append('ratio is not (x / g, 10^p / g) for g = gcd_special(x, p): (%s, %s)' % (show_poly(s, n.p), show_poly(s, dd.p)))
                    if not s.sign(dd.p) <= POS:
                        bad.append('denominator not provably positive')
    obs = [('B-RATIO', 'p=%d;x=%s' % (p, xcls), not bad, '; '.join(bad[:3]) or 'as_integer_ratio = (numerator, denominator) = (x/g, 10^p/g)', None)]
    # Hash::hash(&d, state) feeds the hasher exactly what hashing the pair as_integer_ratio() feeds it: the numerator, then the denominator
    hbad = []
    fnh = db.find_impl_fn('core::hash::Hash', ['Decimal'], 'hash')
    if fnh is None:
        hbad.append('impl Hash for Decimal not found')
    elif 'as_integer_ratio' not in res:
        hbad.append('as_integer_ratio has no single returning path in this cell')
    else:
        st = State(atoms)
        d = dec_val(st, 'x', p, lo, hi)
        I.call_root(st, fnh, [ByRef(d), ByRef(Opaque('H', 'hasher'))])
        houts = I.explore(st)
        if len(houts) != 1 or houts[0].kind != 'ret':
            hbad.append('hash: %s' % [show_outcome(o)[:200] for o in houts])
        else:
            hs = houts[0].state
            fed = list(hs.ghost.get('hashed', ()))
            rv = res['as_integer_ratio'].value
            want = [rv.fields[0], rv.fields[1]] if isinstance(rv, Agg) and len(rv.fields) == 2 else None
            if want is None:
                hbad.append('as_integer_ratio does not return a pair')
            elif len(fed) != 2 or [f[0] for f in fed] != [w.ty for w in want] or not all(poly_eq(hs, dict(f[1]), w.p) for f, w in zip(fed, want)):
                hbad.append('the hasher is fed %s, hashing the pair as_integer_ratio() feeds it (%s, %s)'
                            % ([(f[0], show_poly(hs, dict(f[1]))[:80]) for f in fed], show_poly(hs, want[0].p)[:80], show_poly(hs, want[1].p)[:80]))
    obs.append(('B-HASH', 'p=%d;x=%s' % (p, xcls), not hbad, '; '.join(hbad[:2]) or 'hash feeds (numerator, denominator) of the reduced ratio', span_str(fnh.get('span')) if (hbad and fnh) else None))
    return obs


# ----------------------------------------------------------------------------- the gcd loop (binary gcd of two odd numbers)
# gcd2(A, B) is kept as a canonical term; the only facts used about gcd are the textbook identities (trusted, L1):
#   gcd(a,b) = gcd(b,a);  gcd(a, b - a) = gcd(a, b);  gcd(a, b / 2^k) = gcd(a, b) for odd a and 2^k | b;  gcd(a, 0) = a;  gcd(a, a) = a   (a > 0)
def gnorm(st, A, B, binds):
    """canonical representative of gcd2(A, B) on path st under the identities L1 and the loop-invariant bindings.
    Rewriting: subtract (gcd(a, c - a) -> gcd(a, c)); strip the most recently formed odd-part wrapper when the other side is odd
    (gcd(a, oddpart(c)) -> gcd(a, c)); a pair bound by a loop invariant is replaced by its binding."""
    from ..poly import pis_const, plinear_single, pthaw
    A, B = st.norm(A), st.norm(B)

    def wrapper(X):
        ls = plinear_single(X)
        if ls is not None and ls[1] == 1 and ls[2] == 0 and st.atoms.desc[ls[0]][0] == 'odd':
            return ls[0]
        return None
    for _ in range(40):
        key = ('gcd2', frozenset((pfreeze(A), pfreeze(B))))
        if key in binds:
            return binds[key]
        if pis_const(B) == 0:
            return ('val', pfreeze(A))
        if pis_const(A) == 0:
            return ('val', pfreeze(B))
        if pis_const(st.norm(padd(A, B, -1))) == 0:
            return ('val', pfreeze(A))
        C = st.norm(padd(B, A))
        if len(C) < len(B):
            B = C
            continue
        C = st.norm(padd(A, B))
        if len(C) < len(A):
            A = C
            continue
        wa, wb = wrapper(A), wrapper(B)
        cands = []
        if wb is not None and is_odd(st, A):
            cands.append((wb, 'B'))
        if wa is not None and is_odd(st, B):
            cands.append((wa, 'A'))
        if cands:
            w, side = max(cands)
            inner = st.norm(pthaw(st.atoms.desc[w][1]))
            if side == 'B':
                B = inner
            else:
                A = inner
            continue
        break
    return ('gcd2', frozenset((pfreeze(A), pfreeze(B))))


def is_odd(st, P):
    m, r = st.cong_poly(st.norm(P))
    return (m == 0 and r % 2 == 1) or (m > 0 and m % 2 == 0 and r % 2 == 1)


class GcdHook:
    """loop invariant of gcd_special: u odd, u > 0, v >= 0, gcd2(u, v) = gcd2(u_entry, v_entry)"""

    def __init__(self, ul, vl):
        self.ul, self.vl = ul, vl

    def pair(self, L):
        return L.get(self.ul), L.get(self.vl)

    def on_generalise(self, I, st, fr, snap_old, snap_new, gen):
        depth = len(st.frames) - 1
        binds = dict(st.ghost.get('gcd_binds', {}))
        g = None
        for snap in (snap_old, snap_new):
            u, v = self.pair(snap['frames'][depth][1])
            if not (isinstance(u, Int) and isinstance(v, Int)):
                raise Stop('gcd hook: u / v are not integers')
            if not (is_odd(st, u.p) and st.sign(u.p) <= POS and st.sign(v.p) <= frozenset((0, 1))):
                st.ghost['hook_msg'] = 'base case: u odd, u > 0, v >= 0 does not hold at the loop head'
                raise Stop('gcd hook: ' + st.ghost['hook_msg'])
            gi = gnorm(st, u.p, v.p, binds)
            if g is not None and gi != g:
                st.ghost['hook_msg'] = 'gcd2(u, v) differs between two arrivals at the loop head'
                raise Stop('gcd hook: ' + st.ghost['hook_msg'])
            g = gi
        U, V = self.pair(fr.L)
        from ..poly import plinear_single
        for x in (U, V):
            if not isinstance(x, Int):
                raise Stop('gcd hook: generalised u / v lost')
        lu = plinear_single(st.norm(U.p))
        if lu is not None and lu[1] == 1 and lu[2] == 0 and lu[0] in gen['atoms']:
            st.cong[lu[0]] = (2, 1)                 # invariant: u odd
            st.assume(U.p, POS)
        st.assume(V.p, frozenset((0, 1)))
        binds[gnorm(st, U.p, V.p, {})] = g
        st.ghost['gcd_binds'] = binds
        st.ghost['gcd_G'] = g
        st.ghost['gcd_UV'] = (pfreeze(st.norm(U.p)), pfreeze(st.norm(V.p)))

    def on_rearrival(self, I, st, fr, gen):
        u, v = self.pair(fr.L)
        binds = st.ghost.get('gcd_binds', {})
        if not (isinstance(u, Int) and isinstance(v, Int)):
            return False
        if not (is_odd(st, u.p) and st.sign(u.p) <= POS and st.sign(v.p) <= frozenset((0, 1))):
            st.ghost['hook_msg'] = 'one loop iteration does not preserve "u odd, u > 0, v >= 0"'
            return False
        g = gnorm(st, u.p, v.p, binds)
        if g != st.ghost.get('gcd_G'):
            st.ghost['hook_msg'] = 'one loop iteration does not preserve gcd(u, v): %s' % (g,)
            return False
        return True


def job_gcd(db, job):
    _, e, xcls = job
    fn = db.fns.get(GCDID(db))
    if fn is None:
        return [('G-GCD-LOOP', 'e=%d;x=%s' % (e, xcls), False, 'gcd_special not found', None)]
    names = {n: l for l, n in fn.get('names', [])}
    ul, vl = names.get('u'), names.get('v')
    if ul is None or vl is None:
        # fall back: the two i128 locals passed to mem::swap
        for bi, t, b in mir.iter_calls(fn):
            if (mir.callee(t)[1] or '').endswith('mem::swap'):
                du = mir.DefUse(fn)
                o = [mir.origin(fn, a, du) for a in t['args']]
                loc = [n[1][1] for n in o if n[0] == 'ref' and n[1][0] == 'local']
                if len(loc) == 2:
                    ul, vl = loc
    if ul is None or vl is None:
        return [('G-GCD-LOOP', 'e=%d;x=%s' % (e, xcls), False, 'cannot identify the loop variables u and v of gcd_special', None)]
    opts = Opts(max_paths=5000)
    opts.unroll_loops = False
    opts.loop_delay = 1
    opts.loop_candidates = False
    opts.loop_hooks = {GCDID(db): GcdHook(ul, vl)}
    I = Interp(db, opts)
    st = I.new_state()
    lo, hi = {'neg': (-M, -1), 'pos': (1, M)}[xcls]
    x = st.sym('x', lo, hi)
    I.call_root(st, fn, [x, K(e, 'u32')])
    outs = I.explore(st)
    bad = []
    from ..poly import pneg, plinear_single, pthaw, pis_const
    absx = x.p if xcls == 'pos' else pneg(x.p)
    nret = 0
    for o in outs:
        s = o.state
        if o.kind != 'ret' or not isinstance(o.value, Int):
            bad.append(show_outcome(o)[:300])
            continue
        nret += 1
        # expected: 2^min(tz(|x|), e) * gcd2(oddpart(|x|), 5^e)
        tz = s.atoms.lookup(('tz', pfreeze(absx), 128))
        odd = s.atoms.lookup(('odd', pfreeze(absx)))
        if tz is None:
            bad.append('trailing_zeros(|numer|) never formed')
            continue
        u0 = patom(odd) if odd is not None else absx      # |x| already odd on this path
        G0 = gnorm(s, u0, pconst(5 ** e), {})
        R = s.norm(o.value.p)
        ls = plinear_single(R)
        Up = None
        kdesc = None
        if ls is not None and ls[2] == 0 and s.atoms.desc[ls[0]][0] == 'shl' and ls[1] == 1:
            d = s.atoms.desc[ls[0]]
            Up, kdesc = pthaw(d[1]), pthaw(d[2])
            # shift amount must be tz(|x|) and tz <= e on this path
            if not (pis_const(s.norm(padd(kdesc, patom(tz), -1))) == 0 and s.sign(padd(patom(tz), pconst(e), -1)) <= frozenset((-1, 0))):
                bad.append('shift amount is not min(tz, e): %s' % show_poly(s, kdesc))
        else:
            # 2^k * U with constant k: k must be min(tz, e) decided on the path
            tzlo, tzhi = s.range_of(patom(tz))
            k = None
            if tzlo is not None and tzlo >= e:
                k = e
            elif tzlo is not None and tzlo == tzhi:
                k = min(tzlo, e)
            if k is None or any(c % (2 ** k) for c in R.values()):
                bad.append('result %s is not 2^min(tz,e) * u' % show_poly(s, R))
                continue
            Up = {m_: c // (2 ** k) for m_, c in R.items()}
        if Up is None:
            continue
        # the returned u must be the gcd: on an exit path v == 0, so gcd2(u, v) = u; the invariant binds gcd2(u, v) to G0
        binds = s.ghost.get('gcd_binds', {})
        UV = s.ghost.get('gcd_UV')
        ok = False
        if UV is not None:
            Uf, Vf = dict(UV[0]), dict(UV[1])
            if pis_const(s.norm(padd(Up, Uf, -1))) == 0 and s.sign(Vf) == ZERO and s.ghost.get('gcd_G') == G0:
                ok = True
        if not ok:
            # exit before any generalisation: direct computation
            if gnorm(s, Up, pconst(0), {}) == G0 or G0 == ('val', pfreeze(s.norm(Up))):
                ok = True
        if not ok:
            bad.append('returned u = %s is not bound to gcd2(oddpart|x|, 5^%d) = %s' % (show_poly(s, Up), e, str(G0)[:120]))
    if nret == 0:
        bad.append('no returning path')
    return [('G-GCD-LOOP', 'e=%d;x=%s' % (e, xcls), not bad, '; '.join(bad[:3]) or 'paths=%d: returns 2^min(tz,e) * gcd2(oddpart|x|, 5^e); invariant inductive' % len(outs), span_str(fn.get('span')) if bad else None)]


def run(rep, tier):
    db = get_db()
    rep.tree_hash = db.tree_hash
    rep.configs = ['default']
    # (1) hash feeds the hasher the reduced ratio pair: B-HASH obligations of the ratio cells below
    # Hash must not be derived / implemented for anything else that would bypass it: PartialEq and Hash agree only through the ratio
    jobs = [(p, xc) for p in SCALES_ALL for xc in ('neg', 'zero', 'pos')]
    jobs += [('gcd', e, xc) for e in range(1, 19) for xc in ('neg', 'pos')]
    if tier == 'thorough':
        jobs += [('gcd', e, xc) for e in range(19, 39) for xc in ('neg', 'pos')]
    run_jobs(rep, __name__, jobs)
    rep.floor('B-RATIO', 57)
    rep.floor('B-HASH', 57)
    rep.floor('G-GCD-LOOP', 36)
    # who calls gcd_special: only the three ratio methods
    callers = set()
    for f in db.fns.values():
        for bi, t, blk in mir.iter_calls(f):
            fid, path, _ = mir.callee(t)
            if fid == GCDID(db):
                callers.add(f['id'])
    want = set(x['id'] for x in [db.find_impl_fn(T_RATIO, ['Decimal'], m) for m in ('as_integer_ratio', 'numerator', 'denominator')] if x)
    import re as _re

    def owner(fid):
        return _re.sub(r'(::\{closure#\d+\})+$', '', fid)
    # gcd_special's preconditions are established by interpreting the three ratio methods (callees inlined); any other caller must be a
    # private helper (or closure) of that module, which is reachable only through them
    bad_callers = [c for c in callers if owner(c) not in want and not (owner(c).startswith('fpdec::as_integer_ratio::') and 'Public' not in str((db.fns.get(owner(c)) or {}).get('vis')))]
    rep.ob('R-WHO-CALLS-GCD', 'callers', bool(callers) and not bad_callers, 'gcd_special is called by %s%s' % (sorted(callers), ('; not allowed: %s' % bad_callers) if bad_callers else ''))
    rep.trust('L1 (textbook identities used by the gcd-loop proof): gcd(a,b) = gcd(b,a); gcd(a, b-a) = gcd(a,b); gcd(a, b/2^k) = gcd(a,b) for odd a and 2^k | b; gcd(a,0) = gcd(a,a) = a')
    rep.trust('L2: gcd(2^s * u, 2^e * w) = 2^min(s,e) * gcd(u, w) for odd u, w  (so 2^min(tz|x|, e) * gcd(oddpart|x|, 5^e) = gcd(|x|, 10^e))')
    rep.explanation = ('Hash::hash is, by MIR shape, exactly as_integer_ratio().hash(state); for all 19 scales x sign classes the three ratio methods return the same terms '
                       '(x / g, 10^p / g) over g = gcd_special(x, p) (shared atom table across the three runs), (x, 1) for integral representations and zero; the assertions of '
                       'gcd_special cannot fire at its call sites; the denominator is positive. G-GCD-LOOP: gcd_special itself is interpreted for every exponent (quick 1..18, thorough 1..38) '
                       'and both signs with a specification-supplied loop invariant (u odd, u > 0, v >= 0, gcd(u,v) = gcd(u_entry, v_entry)) that is checked to hold at the loop head and to be '
                       'preserved by one iteration from an arbitrary invariant state (rewriting with the identities L1 over the terms oddpart(x) = x >> x.trailing_zeros()); on exit v = 0, hence '
                       'the function returns 2^min(tz|x|, e) * gcd(oddpart|x|, 5^e), which is gcd(|x|, 10^e) by L2. Given that g is the gcd, (x/g, 10^p/g) is the reduced fraction with a '
                       'positive denominator, unique per value - so equal values hash identically.')
    rep.trust('rustc nightly MIR; absint transfer functions; core\'s Hash impl for tuples and integers')
