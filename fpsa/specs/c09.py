"""C09 (structural clause): hash is the hash of the ratio pair; the three ratio methods agree.

Decided: (1) <Decimal as Hash>::hash hashes exactly as_integer_ratio() (a pair of i128) into the caller's hasher;
(2) as_integer_ratio() = (numerator(), denominator()) as terms over the uninterpreted gcd_special(x, p), with the
integer / zero short-cut (x, 1); (3) the assertions inside gcd_special cannot fire at its three call sites;
(4) the denominator is positive given 1 <= gcd <= 10^p.
NOT decided: that gcd_special computes the gcd (Stein's loop) - hence "equal values hash equally" holds modulo that.
"""
from ..absint import Interp, Opts, Agg, Int, K, State, PanicExc, Stop, ZERO, NONZERO, POS
from ..harness import (dec_coeff, M, SCALES_ALL, dec_val, poly_eq, show_outcome, show_poly, get_db, run_jobs)
from ..db import span_str
from ..poly import padd, pscale, pconst, pmul, patom, pfreeze, Atoms
from ..rules import fwd
from .. import mir

T_RATIO = 'fpdec::as_integer_ratio::AsIntegerRatio'
GCD = 'fpdec::as_integer_ratio::gcd_special'


def summ_gcd(I, st, args, fid):
    """(G, assumed) gcd_special(numer, exp) = g with 1 <= g <= min(|numer|, 10^exp); preconditions numer != 0, exp <= 38 (the function asserts them)"""
    numer, exp = args
    if 0 in st.sign(numer.p):
        raise PanicExc('assert', {'fn': fid, 'what': 'assert_ne!(numer, 0) may fire'})
    elo, ehi = st.itv(exp)
    if ehi > 38:
        raise PanicExc('assert', {'fn': fid, 'what': 'assert!(denom_exp <= 38) may fire'})
    if elo != ehi:
        raise Stop('symbolic exponent')
    a = st.atoms.get(('gcd', pfreeze(st.norm(numer.p)), elo))
    st._jset('bounds', a, (1, 10 ** elo))
    return I.mk(st, 'i128', patom(a))


def run_job(job):
    p, xcls = job
    db = get_db()
    atoms = Atoms()
    lo, hi = {'neg': (-M, -1), 'zero': (0, 0), 'pos': (1, M)}[xcls]
    res = {}
    bad = []
    I = Interp(db, Opts(summaries={GCD: summ_gcd}))
    x_poly = None
    for meth in ('as_integer_ratio', 'numerator', 'denominator'):
        fn = db.find_impl_fn(T_RATIO, ['Decimal'], meth)
        if fn is None:
            return [('B-RATIO', 'p=%d;x=%s' % (p, xcls), False, 'impl AsIntegerRatio for Decimal::%s not found' % meth, None)]
        st = State(atoms)
        d = dec_val(st, 'x', p, lo, hi)
        x_poly = dec_coeff(d).p
        I.call_root(st, fn, [d])
        outs = I.explore(st)
        if len(outs) != 1 or outs[0].kind != 'ret':
            bad.append('%s: %s' % (meth, [show_outcome(o)[:200] for o in outs]))
            continue
        res[meth] = outs[0]
    if len(res) == 3:
        r = res['as_integer_ratio']
        v = r.value
        s = r.state
        if not (isinstance(v, Agg) and len(v.fields) == 2):
            bad.append('as_integer_ratio does not return a pair')
        else:
            n, dd = v.fields
            if not poly_eq(s, n.p, res['numerator'].value.p):
                bad.append('numerator() = %s but as_integer_ratio().0 = %s' % (show_poly(s, res['numerator'].value.p), show_poly(s, n.p)))
            if not poly_eq(s, dd.p, res['denominator'].value.p):
                bad.append('denominator() = %s but as_integer_ratio().1 = %s' % (show_poly(s, res['denominator'].value.p), show_poly(s, dd.p)))
            if p == 0 or xcls == 'zero':
                if not (poly_eq(s, n.p, x_poly) and s.itv(dd) == (1, 1)):
                    bad.append('integer / zero value must have the ratio (x, 1): got (%s, %s)' % (show_poly(s, n.p), show_poly(s, dd.p)))
            else:
                g = atoms.lookup(('gcd', pfreeze(x_poly), p))
                if g is None:
                    bad.append('gcd_special not applied to (coeff, n_frac_digits)')
                else:
                    gq = atoms.lookup(('tdiv', pfreeze(x_poly), pfreeze(patom(g))))
                    gd = atoms.lookup(('tdiv', pfreeze(pconst(10 ** p)), pfreeze(patom(g))))
                    if gq is None or gd is None or not poly_eq(s, n.p, patom(gq)) or not poly_eq(s, dd.p, patom(gd)):
                        bad.append('ratio is not (x / g, 10^p / g) for g = gcd_special(x, p): (%s, %s)' % (show_poly(s, n.p), show_poly(s, dd.p)))
                    if not s.sign(dd.p) <= POS:
                        bad.append('denominator not provably positive')
    return [('B-RATIO', 'p=%d;x=%s' % (p, xcls), not bad, '; '.join(bad[:3]) or 'as_integer_ratio = (numerator, denominator) = (x/g, 10^p/g)', None)]


def run(rep, tier):
    db = get_db()
    rep.tree_hash = db.tree_hash
    rep.configs = ['default']
    rep.level = 'other'
    # (1) hash forwards to the ratio pair
    fn = db.find_impl_fn('core::hash::Hash', ['Decimal'], 'hash')
    ratio = db.find_impl_fn(T_RATIO, ['Decimal'], 'as_integer_ratio')
    ok = False
    detail = 'impl Hash for Decimal / AsIntegerRatio not found'
    if fn is not None and ratio is not None:
        sh, why = fwd.shape_multi(fn)
        detail = '%s (%s)' % (sh, why)
        if sh and len(sh) == 2:
            a, b = sh
            ok = (a['callee'] == ratio['id'] and a['args'] == [('deref', ('param', 1))]
                  and (b['path'] or '').startswith('core::hash::impls::<impl core::hash::Hash for (T, B)>::hash')
                  and len(b['args']) == 2 and b['args'][0] == ('ref', ('call', ratio['id'], a['path'], a['args'])) and b['args'][1] == ('param', 2))
    rep.ob('R-FWD-HASH', 'hash-is-hash-of-ratio', ok, 'Hash::hash(&self, state) must be exactly self.as_integer_ratio().hash(state); found %s' % detail,
           site=span_str(fn.get('span')) if fn else None)
    # Hash must not be derived / implemented for anything else that would bypass it: PartialEq and Hash agree only through the ratio
    jobs = [(p, xc) for p in SCALES_ALL for xc in ('neg', 'zero', 'pos')]
    run_jobs(rep, __name__, jobs)
    rep.floor('B-RATIO', 57)
    # who calls gcd_special: only the three ratio methods
    callers = set()
    for f in db.fns.values():
        for bi, t, blk in mir.iter_calls(f):
            fid, path, _ = mir.callee(t)
            if fid == GCD:
                callers.add(f['id'])
    want = set(x['id'] for x in [db.find_impl_fn(T_RATIO, ['Decimal'], m) for m in ('as_integer_ratio', 'numerator', 'denominator')] if x)
    rep.ob('R-WHO-CALLS-GCD', 'callers', callers == want, 'gcd_special is called by %s' % sorted(callers))
    rep.assume('CONTRACT G (assumed, NOT decided): gcd_special(x, p) returns gcd(|x|, 10^p) for x != 0, p <= 38 (binary gcd loop); '
               'reducedness of the fraction and "equal values hash equally" hold modulo this contract')
    rep.explanation = ('Clause decided: Hash::hash is, by MIR shape, exactly as_integer_ratio().hash(state); for all 19 scales x sign classes the three ratio methods return the same terms '
                       '(x / g, 10^p / g) over the uninterpreted g = gcd_special(x, p) (shared atom table across the three runs), (x, 1) for integral representations and zero; the '
                       'assertions of gcd_special cannot fire at its call sites; the denominator is positive. Not decided: the gcd loop itself.')
    rep.trust('rustc nightly MIR; absint transfer functions; core\'s Hash impl for tuples and integers')
