"""C10: remainder satisfies the truncated-division identity exactly (oracle: Appendix A.6).

For a returned (r, f) let m = max(p, q), A = 10^(m-p) x, B = 10^(m-q) y, Rm = 10^(m-f) r.  Each return path must imply
  A - Rm is an integer multiple of B (as polynomials, using the path's equalities), |Rm| < |B|, sign(Rm) in {0, sign(A)}, f <= m.
"""
from ..absint import Interp, Opts, Agg, Int, K, ZERO, NONZERO, POS, NEG, NONNEG, NONPOS
from ..harness import (dec_coeff, M, T_REM, T_CREM, SCALES_QUICK, SCALES_ALL, dec_val, int_val, dec_parts, opt_parts, poly_eq, show_outcome,
                       show_poly, notes_of, get_db, run_jobs, find_root)
from ..db import INT_TYPES9, span_str
from ..poly import padd, pscale, pconst, pmul, pneg, pfreeze, pis_const
from ..rules import fwd
from .c02 import decided

OPS = {'rem': (T_REM, 'rem', False), 'checked_rem': (T_CREM, 'checked_rem', True)}


def divisible(s, P, B):
    """P is an integer multiple of B on path s (polynomial divisibility modulo the path's zero forms)"""
    P = s.norm(P)
    B = s.norm(B)
    cb = pis_const(B)
    if cb is not None:
        def bad_monos(p_):
            return [m for m, v in p_.items() if v % cb != 0]
        batoms = ()
    else:
        if len(B) != 1:
            return False
        (bm, cb), = B.items()

        def bad_monos(p_):
            out = []
            for m, v in p_.items():
                rest = list(m)
                ok = v % cb == 0
                for a in bm:
                    if a in rest:
                        rest.remove(a)
                    else:
                        ok = False
                if not ok:
                    out.append(m)
            return out
    zero_forms = [dict(k) for k, (lo, hi, ex) in s.forms.items() if lo == 0 and hi == 0]
    for _ in range(8):
        bm_ = bad_monos(P)
        if not bm_:
            return True
        progressed = False
        for m in bm_:
            for z in zero_forms:
                if m in z and P[m] % z[m] == 0:
                    P = s.norm(padd(P, z, -(P[m] // z[m])))
                    progressed = True
                    break
            if progressed:
                break
        if not progressed:
            return False
    return not bad_monos(P)


def run_job(job):
    op, form, ty, p, q, xcls = job
    db = get_db()
    trait, meth, checked = OPS[op]
    targs = {'DD': ['Decimal', 'Decimal'], 'DI': ['Decimal', ty], 'ID': [ty, 'Decimal']}[form]
    fn = find_root(db, trait, targs, meth)
    I = Interp(db, Opts(max_paths=60000))
    st = I.new_state()
    xr = {'any': (-M, M), 'neg': (-M, -1), 'pos': (1, M), 'zero': (0, 0)}[xcls]
    if form == 'DD':
        xa, ya = dec_val(st, 'x', p, *xr), dec_val(st, 'y', q)
        xc, yc = dec_coeff(xa), dec_coeff(ya)
    elif form == 'DI':
        xa, ya = dec_val(st, 'x', p, *xr), int_val(st, 'y', ty)
        xc, yc = dec_coeff(xa), ya
        q = 0
    else:
        xa, ya = int_val(st, 'x', ty), dec_val(st, 'y', q)
        xc, yc = xa, dec_coeff(ya)
        p = 0
    I.call_root(st, fn, [xa, ya])
    outs = I.explore(st)
    m = max(p, q)
    X, Y = xc.p, yc.p
    A, B = pscale(X, 10 ** (m - p)), pscale(Y, 10 ** (m - q))
    bad = []
    n_val = 0
    for o in outs:
        s = o.state
        if o.kind == 'unknown':
            bad.append(show_outcome(o))
            continue
        zy = decided(s, Y, ZERO)
        v = o.value
        failure = None
        if o.kind == 'panic':
            if checked:
                bad.append('checked_rem can panic: %s' % show_outcome(o))
                continue
            if o.value in ('DecimalError::DivisionByZero', 'DecimalError::InternalOverflow'):
                failure = o.value.split('::')[1]
            elif o.value == 'Overflow' and (o.info or {}).get('op') == 'Rem' and s.sign(padd(A, pconst(2**127))) == ZERO:
                continue        # i128::MIN % -1 style overflow of the machine operation (integer operand i128::MIN)
            else:
                bad.append('unexpected panic: %s' % show_outcome(o))
                continue
        elif checked:
            op_ = opt_parts(v)
            if op_ is None:
                bad.append('not an Option: %s' % show_outcome(o))
                continue
            if op_[0] == 'none':
                failure = 'none'
            else:
                v = op_[1]
        if zy is None:
            bad.append('zero-divisor test undecided: %s' % show_outcome(o))
            continue
        if zy is True:
            if failure not in ('DivisionByZero', 'none'):
                bad.append('zero divisor must panic with DivisionByZero / give None: %s' % show_outcome(o))
            continue
        if failure is not None:
            if failure == 'DivisionByZero':
                bad.append('DivisionByZero with a non-zero divisor')
                continue
            # permitted only if p < q and 10^(q-p) x does not fit
            ov = [n for n in notes_of(o, 'overflows') if poly_eq(s, dict(n[1]), A)]
            if not (p < q and ov):
                bad.append('overflow signal although the dividend can be re-expressed with the divisor\'s fractional digits (p=%d q=%d): %s' % (p, q, show_outcome(o)[:200]))
            continue
        dp = dec_parts(v)
        if dp is None:
            bad.append('not a Decimal: %s' % show_outcome(o))
            continue
        c, nfd = dp
        n_val += 1
        if nfd.lo != nfd.hi or nfd.lo > m:
            bad.append('scale [%s,%s] exceeds max(p,q)=%d' % (nfd.lo, nfd.hi, m))
            continue
        f = nfd.lo
        Rm = pscale(c.p, 10 ** (m - f))
        # (1) A - Rm multiple of B
        if not divisible(s, padd(A, Rm, -1), B):
            bad.append('x - r is not provably an integer multiple of y: A=%s Rm=%s B=%s' % (show_poly(s, A), show_poly(s, Rm), show_poly(s, B)))
            continue
        # (2) |Rm| < |B|
        sb = s.sign(B)
        sr = s.sign(Rm)
        if sr == ZERO:
            mag = True
        else:
            absB = B if sb <= POS else (pneg(B) if sb <= NEG else None)
            absR = Rm if sr <= NONNEG else (pneg(Rm) if sr <= NONPOS else None)
            mag = absB is not None and absR is not None and s.sign(padd(absR, absB, -1)) <= NEG
        if not mag:
            bad.append('|r| < |y| not implied: r=%s (sign %s) y-form=%s (sign %s)' % (show_poly(s, Rm), sorted(sr), show_poly(s, B), sorted(sb)))
        # (3) sign
        sa = s.sign(A)
        if not (sr == ZERO or (sa <= NONNEG and sr <= NONNEG) or (sa <= NONPOS and sr <= NONPOS)):
            bad.append('sign of r %s not that of x %s' % (sorted(sr), sorted(sa)))
    if n_val == 0 and xcls != 'zero':
        bad.append('no path returns a value')
    key = '%s;%s;%s;p=%d;q=%d;x=%s' % (op, form, ty or '-', p, q, xcls)
    return [('B-REM', key, not bad, '; '.join(bad[:3]) or 'paths=%d' % len(outs), span_str(fn.get('span')) if bad else None)]


def run(rep, tier):
    db = get_db()
    rep.tree_hash = db.tree_hash
    rep.configs = ['default']
    scales = SCALES_ALL if tier == 'thorough' else [0, 1, 2, 9, 17, 18]
    jobs = []
    for op in OPS:
        for p in scales:
            for q in scales:
                for xc in ('neg', 'pos'):
                    jobs.append((op, 'DD', None, p, q, xc))
        for ty in (INT_TYPES9 if tier == 'thorough' else ['u8', 'i32', 'i128']):
            for p in (scales if tier == 'thorough' else [0, 1, 18]):
                for xc in ('neg', 'pos'):
                    jobs.append((op, 'DI', ty, p, 0, xc))
                jobs.append((op, 'ID', ty, 0, p, 'any'))
    run_jobs(rep, __name__, jobs)
    rep.floor('B-REM', len(jobs))
    left = fwd.run_ops(rep, db, [T_REM, T_CREM])
    for fn, base, why in left:
        rep.ob('R-FWD', 'default;nonforwarder;%s' % fn['id'], False, 'reference form is not a pure forwarder (%s)' % why)
    fwd.run_assign(rep, db, ['core::ops::arith::RemAssign'])
    rep.floor('R-FWD', 110)
    rep.explanation = ('Per scale pair and sign class of the dividend the MIR of Rem / CheckedRem is interpreted with symbolic coefficients (no summaries are needed: only truncating '
                       'division terms occur): a zero divisor gives DivisionByZero / None and nothing else does; every returned (r, f) has f <= max(p,q) and, with both operands '
                       're-expressed at scale max(p,q), x - r is an integer multiple of y as polynomials (using the equalities recorded on the path; the stepwise loop for dividends '
                       'that cannot be up-scaled is unrolled, at most 18 rounds), |r| < |y| and r is zero or has the sign of x; the only other failure is the overflow signal of the '
                       'stepwise loop, reachable only when p < q and 10^(q-p) x does not fit i128; checked_rem has no panic edge.')
    rep.trust('rustc nightly MIR; absint transfer functions (defining identities of truncating / and %) and callee models')
