"""rkyv clause of C08 (thorough tier): archived values compare like the values they were archived from; deserialising is the identity."""
from ..absint import Interp, Opts, ByRef, Agg, Opaque, K, UNIT
from ..harness import dec_coeff, get_db, run_jobs, dec_val, dec_parts, poly_eq, show_outcome, res_parts
from ..db import span_str

SC = [0, 1, 9, 17, 18]


def run_job(job):
    from . import c08
    if job[0] == 'cmpjob':
        return c08.run_job(job[1])
    _, cfg, p = job
    db = get_db(cfg)
    bad = []
    # ArchivedDecimal::deserialize(&self, &mut D) -> Result<Decimal, D::Error> is the identity on (coeff, n_frac_digits)
    fn = None
    for f in db.fns.values():
        if f['impl'] and f['impl']['trait'] == 'rkyv::Deserialize' and f['name'] == 'deserialize' and 'ArchivedDecimal' in f['impl']['self']:
            fn = f
    if fn is None:
        return [('B-RKYV-IDENTITY', '%s;deserialize;p=%d' % (cfg, p), False, 'impl Deserialize<Decimal, D> for ArchivedDecimal not found', None)]
    I = Interp(db, Opts())
    st = I.new_state()
    d = dec_val(st, 'x', p, adt='fpdec::ArchivedDecimal')
    a = d
    I.call_root(st, fn, [ByRef(a), ByRef(Opaque('D', 'deserializer'))])
    outs = I.explore(st)
    for o in outs:
        rp = res_parts(o.value) if o.kind == 'ret' else None
        dp = dec_parts(rp[1]) if rp and rp[0] == 'ok' else None
        if dp is None or not poly_eq(o.state, dp[0].p, dec_coeff(d).p) or (dp[1].lo, dp[1].hi) != (p, p):
            bad.append(show_outcome(o)[:300])
    if len(outs) != 1:
        bad.append('%d outcomes' % len(outs))
    return [('B-RKYV-IDENTITY', '%s;deserialize;p=%d' % (cfg, p), not bad, '; '.join(bad[:2]) or 'Ok(Decimal{coeff, n_frac_digits}) field by field', span_str(fn.get('span')) if bad else None)]


def run(rep):
    jobs = []
    for cfg in ('all',):
        rep.configs.append(cfg)
        for p in SC:
            for q in SC:
                for lt, rt in (('ArchivedDecimal', 'ArchivedDecimal'), ('ArchivedDecimal', 'Decimal'), ('Decimal', 'ArchivedDecimal')):
                    for kind in ('partial_cmp', 'eq'):
                        jobs.append(('cmpjob', (kind, 'DD', None, p, q, cfg, lt, rt)))
                jobs.append(('cmpjob', ('cmp', 'DD', None, p, q, cfg, 'ArchivedDecimal', 'ArchivedDecimal')))
            jobs.append(('ident', cfg, p))
    run_jobs(rep, __name__, jobs)
    rep.floor('B-CMP-ARCHIVED', 150)
    rep.assume('rkyv clause analysed for the hand-written packed ArchivedDecimal (features rkyv+packed); for the derive-generated non-packed variant rkyv\'s derive is trusted and the '
               'comparison impls are the same macro bodies (impl_partial_eq!/impl_partial_ord! instantiated for ArchivedDecimal); the raw-pointer writes of Archive::resolve are not decided')
