"""C14: integer conversions are exact and total with precise error kinds (oracle: Appendix A.8)."""
from ..absint import Interp, Opts, Agg, Int, NEG
from ..harness import (dec_coeff, M, SCALES_ALL, dec_val, int_val, dec_parts, res_parts, variant_name, poly_eq, show_outcome, show_poly,
                       get_db, run_jobs, find_root, query_trem)
from ..db import INT_TYPES9, INT_RANGES
from ..poly import padd, pscale, pconst

T_FROM = 'core::convert::From'
T_TRYFROM = 'core::convert::TryFrom'
TARGETS = ['u8', 'i8', 'u16', 'i16', 'u32', 'i32', 'u64', 'i64', 'u128', 'i128']


def run_job(job):
    kind, ty, p = job
    db = get_db()
    I = Interp(db, Opts())
    st = I.new_state()
    bad = []
    if kind == 'from':
        fn = find_root(db, T_FROM, ['Decimal', ty], 'from')
        i = int_val(st, 'i', ty)
        I.call_root(st, fn, [i])
        outs = I.explore(st)
        for o in outs:
            dp = dec_parts(o.value) if o.kind == 'ret' else None
            if dp is None:
                bad.append(show_outcome(o))
            elif not poly_eq(o.state, dp[0].p, i.p) or (dp[1].lo, dp[1].hi) != (0, 0):
                bad.append('Decimal::from(i) = %s' % show_outcome(o))
        if len(outs) != 1:
            bad.append('%d outcomes' % len(outs))
        return [('B-FROM-INT', 'from;%s' % ty, not bad, '; '.join(bad) or 'Decimal{coeff: i, n_frac_digits: 0}', None)]
    if kind == 'from_u128':
        fn = find_root(db, T_TRYFROM, ['Decimal', 'u128'], 'try_from')
        i = int_val(st, 'i', 'u128')
        I.call_root(st, fn, [i])
        outs = I.explore(st)
        seen = set()
        for o in outs:
            rp = res_parts(o.value) if o.kind == 'ret' else None
            if rp is None:
                bad.append(show_outcome(o))
                continue
            s = o.state
            if rp[0] == 'ok':
                dp = dec_parts(rp[1])
                if dp is None or not poly_eq(s, dp[0].p, i.p) or (dp[1].lo, dp[1].hi) != (0, 0):
                    bad.append('Ok value %s' % show_outcome(o))
                if s.in_range(i.p, 0, M) is not True:
                    bad.append('Ok although i may exceed i128::MAX')
                seen.add('ok')
            else:
                nm = variant_name(db, rp[1])
                if nm != 'InternalOverflow':
                    bad.append('error kind %s' % nm)
                if s.in_range(i.p, 0, M) is not False:
                    bad.append('Err although i may be <= i128::MAX')
                seen.add('err')
        if seen != {'ok', 'err'}:
            bad.append('outcome classes %s' % sorted(seen))
        return [('B-FROM-INT', 'try_from;u128', not bad, '; '.join(bad) or 'Ok iff i <= i128::MAX else InternalOverflow', None)]
    # T::try_from(Decimal)
    fn = find_root(db, T_TRYFROM, [ty, 'Decimal'], 'try_from')
    d = dec_val(st, 'x', p)
    x = dec_coeff(d)
    I.call_root(st, fn, [d])
    outs = I.explore(st)
    t = 10 ** p
    rlo, rhi = INT_RANGES[ty]
    seen = set()
    for o in outs:
        rp = res_parts(o.value) if o.kind == 'ret' else None
        if rp is None:
            bad.append(show_outcome(o))
            continue
        s = o.state
        if rp[0] == 'ok':
            v = rp[1]
            if not isinstance(v, Int) or not poly_eq(s, x.p, pscale(v.p, t)):
                bad.append('Ok(v) with x != 10^p*v: %s' % show_outcome(o))
            elif s.in_range(v.p, rlo, rhi) is not True:
                bad.append('Ok(v) with v possibly outside %s' % ty)
            seen.add('ok')
        else:
            nm = variant_name(db, rp[1])
            sg, T = query_trem(s, x.p, t)
            if nm == 'NotAnIntValue':
                if sg is None or 0 in sg:
                    bad.append('NotAnIntValue on a path where 10^%d may divide x (rem sign %s)' % (p, sg))
            elif nm == 'ValueOutOfRange':
                if sg != frozenset((0,)):
                    bad.append('ValueOutOfRange on a path where x may be non-integral (rem sign %s)' % (sg,))
                else:
                    q = s.norm(x.p)
                    # x = t*T  (substituted): quotient is x/t
                    if any(c % t for c in q.values()):
                        bad.append('quotient not expressible')
                    else:
                        qp = {m_: c // t for m_, c in q.items()}
                        if s.in_range(qp, rlo, rhi) is not False:
                            bad.append('ValueOutOfRange although x/10^p may fit %s' % ty)
            else:
                bad.append('error kind %s' % nm)
            seen.add(nm)
    want = {'ok'}
    if p > 0:
        want.add('NotAnIntValue')
    if ty != 'i128':
        want.add('ValueOutOfRange')
    if seen != want:
        bad.append('outcome classes %s, expected %s' % (sorted(seen), sorted(want)))
    return [('B-INTO-INT', 'try_from;%s;p=%d' % (ty, p), not bad, '; '.join(bad[:4]) or 'paths=%d classes=%s' % (len(outs), sorted(seen)), None)]


def run(rep, tier):
    db = get_db()
    rep.tree_hash = db.tree_hash
    rep.configs = ['default']
    jobs = [('from', ty, 0) for ty in INT_TYPES9] + [('from_u128', 'u128', 0)]
    for ty in TARGETS:
        for p in SCALES_ALL:
            jobs.append(('into', ty, p))
    run_jobs(rep, __name__, jobs)
    rep.floor('B-FROM-INT', 10)
    rep.floor('B-INTO-INT', 190)
    rep.explanation = ('Abstract interpretation per (target type, scale) cell with a symbolic coefficient over the full range: Ok(v) paths imply x = 10^p*v with v in '
                       'the target range; NotAnIntValue paths imply x mod 10^p != 0 (whatever the range); ValueOutOfRange paths imply divisibility and a quotient '
                       'outside the target type; the three classes are all reachable. Decimal::from(i) is (i, 0) as a term; u128 splits at i128::MAX.')
    rep.trust('rustc nightly MIR; absint transfer functions and callee models (TryFrom between integer types, truncating division identities)')
