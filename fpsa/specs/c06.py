"""C06 (clause: the parser never panics and never reads outside the string).

Decided: str_to_dec, <Decimal as FromStr>::from_str and the two TryFrom impls have no panic edge of any kind (bounds checks,
arithmetic overflow on usize / isize / u8 casts, debug assertions) and every unsafe operation's precondition
(get_unchecked(n..): n <= len; read_unaligned::<u64>: len >= 8) holds, for input slices of every length 0..=isize::MAX.
Modular: the three scanning helpers are analysed alone with widening at their loop heads and then replaced by the
summaries their analysis established.
NOT decided: which strings are accepted, the value returned, completeness of the overflow detection (a value-level
defect of the parser - wrap-around of the u128 accumulator for 39+ digit inputs - is therefore outside this check).
"""
from ..absint import (Interp, Opts, ByRef, Agg, Int, K, SliceVal, Ref, Stop, PanicExc, Infeasible, NONPOS, NONNEG, ZERO, RESULT)
from .. import absint, mir
from ..harness import (get_db, run_jobs, show_outcome, show_poly, poly_eq, variant_name)
from ..db import span_str
from ..models import deref
from ..poly import padd, pconst, patom

P = 'fpdec_core::parser::'
LIT = P + 'AsciiDecLit'
MAXLEN = 2**63 - 1
EXP_MAX = 0x1000000 * 10 - 1          # 10 * (0x1000000 - 1) + 9


def helper(db, name):
    c = [f for f in db.fns.values() if f['id'].startswith(P) and f['name'] == name and f['impl'] and 'AsciiDecLit' in f['impl']['self']]
    if len(c) != 1:
        raise SystemExit('fpsa: parser helper %s not found uniquely (fail closed)' % name)
    return c[0]


def setup_thresholds(db):
    consts = set()
    for f in db.fns.values():
        if f['id'].startswith(P) or f['id'].startswith('fpdec::from_str'):
            for c in mir.consts_in_body(f):
                if 'int' in c:
                    try:
                        consts.add(int(c['int']))
                    except ValueError:
                        pass
    absint.add_thresholds(consts)


def lit_of(I, st, ref):
    v = deref(I, st, ref)
    if not (isinstance(v, Agg) and v.kind == LIT and isinstance(v.fields[0], SliceVal)):
        raise Stop('expected AsciiDecLit, found %r' % (v,))
    return v


def write_back(I, st, ref, val):
    tf = I.frame_of(st, ref.frame)
    tf.L[ref.local] = I.updated(st, tf, tf.L.get(ref.local), list(ref.proj), val)


def shrink(I, st, ref):
    """the literal referenced by `ref` keeps a suffix of unknown length: returns (old len Int, new len Int)"""
    lit = lit_of(I, st, ref)
    old = lit.fields[0].len
    lo, hi = st.itv(old)
    new = st.fresh('usize', 0, hi, 'len')
    st.assume(padd(new.p, old.p, -1), NONPOS)
    write_back(I, st, ref, Agg(LIT, lit.variant, (SliceVal(new, lit.fields[0].tag),)))
    return old, new


def summ_skip_zeroes(I, st, args, fid):
    shrink(I, st, args[0])
    return args[0]


def summ_accum_coeff(I, st, args, fid):
    old, new = shrink(I, st, args[0])
    c = deref(I, st, args[1])
    write_back(I, st, args[1], st.fresh('u128', tag='coeff'))
    return I.mk(st, 'usize', padd(old.p, new.p, -1), 0, None)


def summ_accum_exp(I, st, args, fid):
    e = deref(I, st, args[1])
    if st.itv(e) != (0, 0):
        raise Stop('summary of accum_exp needs *exp == 0 at the call site')
    old, new = shrink(I, st, args[0])
    write_back(I, st, args[1], st.fresh('isize', 0, EXP_MAX, 'exp'))
    return I.mk(st, 'usize', padd(old.p, new.p, -1), 0, None)


def summaries(db):
    return {helper(db, 'skip_leading_zeroes')['id']: summ_skip_zeroes,
            helper(db, 'accum_coeff')['id']: summ_accum_coeff,
            helper(db, 'accum_exp')['id']: summ_accum_exp}


def classify(outs, bad):
    n = 0
    for o in outs:
        if o.kind == 'ret':
            n += 1
        elif o.kind == 'panic':
            bad.append('panic edge %s %s at %s' % (o.value, {k: v for k, v in (o.info or {}).items() if k != 'term'}, o.site))
        else:
            bad.append('analysis incomplete: %s at %s' % (o.info, o.site))
    return n


def run_job(job):
    kind, name = job
    db = get_db()
    setup_thresholds(db)
    bad = []
    if kind == 'helper':
        fn = helper(db, name)
        opts = Opts(max_paths=20000)
        opts.unroll_loops = False
        I = Interp(db, opts)
        st = I.new_state()
        L0 = st.sym('len', 0, MAXLEN, 'usize')
        lit = Agg(LIT, 0, (SliceVal(L0, 'bytes'),))
        args = [ByRef(lit)]
        if name == 'accum_coeff':
            args.append(ByRef(st.sym('coeff', 0, 2**128 - 1, 'u128')))
        elif name == 'accum_exp':
            args.append(ByRef(K(0, 'isize')))
        I.call_root(st, fn, args)
        outs = I.explore(st)
        nret = classify(outs, bad)
        for o in outs:
            if o.kind != 'ret':
                continue
            s = o.state
            lit2 = s.frames[0].L.get(100)
            if not (isinstance(lit2, Agg) and isinstance(lit2.fields[0], SliceVal)):
                bad.append('literal lost: %r' % (lit2,))
                continue
            L1 = lit2.fields[0].len
            if not s.sign(padd(L1.p, L0.p, -1)) <= NONPOS:
                bad.append('post: remaining length <= initial length not established')
            if name in ('accum_coeff', 'accum_exp'):
                if not (isinstance(o.value, Int) and poly_eq(s, o.value.p, padd(L0.p, L1.p, -1))):
                    bad.append('post: returns consumed byte count len - len\' not established: %s' % show_outcome(o)[:200])
            if name == 'accum_exp':
                e = s.frames[0].L.get(101)
                lo, hi = s.itv(e)
                if lo < 0 or hi > EXP_MAX:
                    bad.append('post: 0 <= exp <= %d not established: [%s, %s]' % (EXP_MAX, lo, hi))
        if nret == 0:
            bad.append('no returning path')
        return [('H-PARSER-HELPER', name, not bad, '; '.join(bad[:3]) or 'paths=%d: no panic, unsafe preconditions hold, summary established' % len(outs), span_str(fn.get('span')) if bad else None)]
    # roots with the helper summaries
    if name == 'str_to_dec':
        fn = db.fns.get(P + 'str_to_dec')
    else:
        fn = db.find_impl_fn('core::str::traits::FromStr', ['Decimal'], 'from_str')
    if fn is None:
        return [('R-NOPANIC', name, False, 'root not found', None)]
    I = Interp(db, Opts(summaries=summaries(db), max_paths=50000))
    st = I.new_state()
    st.decomp_depth = 2
    I.call_root(st, fn, [SliceVal(st.sym('len', 0, MAXLEN, 'usize'), 'str')])
    outs = I.explore(st)
    nret = classify(outs, bad)
    kinds = set()
    for o in outs:
        if o.kind == 'ret' and isinstance(o.value, Agg) and o.value.kind == RESULT:
            kinds.add('Ok' if o.value.variant == 0 else 'Err(%s)' % variant_name(db, o.value.fields[0]))
    if nret == 0:
        bad.append('no returning path')
    return [('R-NOPANIC', name, not bad, '; '.join(bad[:4]) or 'paths=%d, all return; result classes %s' % (len(outs), sorted(kinds)), span_str(fn.get('span')) if bad else None)]


def run(rep, tier):
    db = get_db()
    rep.tree_hash = db.tree_hash
    rep.configs = ['default']
    rep.level = 'other'
    jobs = [('helper', 'skip_leading_zeroes'), ('helper', 'accum_coeff'), ('helper', 'accum_exp'), ('root', 'str_to_dec'), ('root', 'from_str')]
    run_jobs(rep, __name__, jobs, nproc=5, chunk=1)
    rep.floor('H-PARSER-HELPER', 3)
    rep.floor('R-NOPANIC', 2)
    # unsafe inventory of the parser: every unsafe call is one of the modelled operations
    modelled = ('skip_n', 'skip_1', 'read_u64_unchecked', 'get_unchecked', 'read_unaligned')
    n = 0
    for f in db.fns.values():
        if not f['id'].startswith(P):
            continue
        ordn = {}
        for bi, t, blk in mir.iter_calls(f):
            c = t['call'].get('const') if isinstance(t['call'], dict) else None
            r = (c or {}).get('resolved') or c or {}
            if r.get('unsafe'):
                n += 1
                nm = r.get('path', '').rsplit('::', 1)[-1]
                ordn[nm] = ordn.get(nm, 0) + 1
                rep.ob('R-UNSAFE-SITE', '%s;%s#%d' % (f['id'], nm, ordn[nm]), nm in modelled, 'unsafe call %s in the parser must be one whose precondition is modelled as an obligation' % r.get('path'),
                       site=span_str(blk.get('tspan')))
    rep.floor('R-UNSAFE-SITE', 10)
    # the string conversions forward to from_str (so the clause extends to them)
    from ..rules import fwd
    fs = db.find_impl_fn('core::str::traits::FromStr', ['Decimal'], 'from_str')
    for src in ('&str', 'std::string::String'):
        fn = db.find_impl_fn('core::convert::TryFrom', ['Decimal', src], 'try_from')
        sh, why = fwd.shape_multi(fn) if fn else (None, 'missing')
        ok = bool(sh) and sh[-1]['callee'] == (fs or {}).get('id') and sh[-1]['ret'] == 'returned' and len(sh) <= 2
        rep.ob('R-FWD-STR', 'TryFrom<%s>' % src, ok, 'forwards to from_str: %s (%s)' % (sh, why))
    rep.assume('NOT decided: the accepted grammar, the value returned, and whether coefficient overflow is always detected (e.g. from_str("440282366920938463463374607431768211456") = Ok(10^38) '
               'is a value-level defect of the u128 accumulator that this clause cannot see)')
    rep.explanation = ('Clause decided: no panic and no out-of-bounds read. The three scanning helpers (skip_leading_zeroes, accum_coeff, accum_exp) are interpreted alone over slices of every '
                       'length 0..=isize::MAX with generalisation (widening with thresholds, candidate relations to unchanged values) at their loop heads: no panic edge, the preconditions of '
                       'get_unchecked(n..) (n <= len) and read_unaligned::<u64> (len >= 8) hold at all unsafe call sites, and they establish: remaining length <= initial length, returned count = '
                       'len - len\', 0 <= exp <= 10*(0x1000000-1)+9. str_to_dec and from_str are then interpreted with these summaries: every path returns (no overflow of usize / isize arithmetic, '
                       'casts in range).')
    rep.trust('rustc nightly MIR; absint incl. its loop generalisation; slice / pointer models (only lengths are tracked)')
