"""C06 (clauses: the parser never panics / never reads outside the string; magnitude of the result under contract A of the scanners).

Decided: str_to_dec, <Decimal as FromStr>::from_str and the two TryFrom impls have no panic edge of any kind (bounds checks,
arithmetic overflow on usize / isize / u8 casts, debug assertions) and every unsafe operation's precondition
(get_unchecked(n..): n <= len; read_unaligned::<u64>: len >= 8) holds, for input slices of every length 0..=isize::MAX.
Modular: the three scanning helpers are analysed alone with widening at their loop heads and then replaced by the
summaries their analysis established.
Value clause (V-PARSE-VALUE, job_value): with the three scanners replaced by their value-level contract A (assumed; the arithmetic flavour
of the accumulation is read off accum_coeff's body), every Ok((c, e)) of str_to_dec returns c = +-D (D = the literal's digits as a number,
D <= i128::MAX implied) and e = +-exponent - (fractional digits), and every Err(InternalOverflow) implies D > i128::MAX.
This clause found the wrap-around defect D5 and the leading-fractional-zeros defect D11 (both repaired by a fix: commit).
NOT decided: which byte strings are accepted (the grammar), the association of sign bytes with signs.
"""
from ..absint import (Interp, Opts, ByRef, Agg, Int, K, SliceVal, Ref, Stop, PanicExc, Infeasible, NONPOS, NONNEG, ZERO, NEG, POS, RESULT)
from .. import absint, mir
from ..harness import (get_db, run_jobs, show_outcome, show_poly, poly_eq, variant_name)
from ..db import span_str
from ..models import deref
from ..poly import padd, pconst, patom, pfreeze, pscale

P = 'fpdec_core::parser::'
LIT = P + 'AsciiDecLit'
MAXLEN = 2**63 - 1
EXP_MAX = 0x1000000 * 10 - 1          # 10 * (0x1000000 - 1) + 9


def helper(db, name):
    """the scanner method with this role (found by name, else by its signature among the methods str_to_dec calls)"""
    from .. import roles
    return roles.fn(db, {'skip_leading_zeroes': 'SKIP_ZEROES', 'accum_coeff': 'ACCUM_COEFF', 'accum_exp': 'ACCUM_EXP'}[name])


def setup_thresholds(db):
    consts = set()
    for f in db.fns.values():
        if f['id'].startswith(P) or f['id'].startswith('fpdec::from_str'):
            for c in mir.consts_in_body(f):
                if 'int' in c:
                    try:
                        consts.add(int(c['int']))
                    except ValueError:
                        pass
    absint.add_thresholds(consts)


def lit_of(I, st, ref):
    v = deref(I, st, ref)
    if not (isinstance(v, Agg) and v.kind == LIT and isinstance(v.fields[0], SliceVal)):
        raise Stop('expected AsciiDecLit, found %r' % (v,))
    return v


def write_back(I, st, ref, val):
    tf = I.frame_of(st, ref.frame)
    tf.L[ref.local] = I.updated(st, tf, tf.L.get(ref.local), list(ref.proj), val)


def shrink(I, st, ref):
    """the literal referenced by `ref` keeps a suffix of unknown length: returns (old len Int, new len Int)"""
    lit = lit_of(I, st, ref)
    old = lit.fields[0].len
    lo, hi = st.itv(old)
    new = st.fresh('usize', 0, hi, 'len')
    st.assume(padd(new.p, old.p, -1), NONPOS)
    write_back(I, st, ref, Agg(LIT, lit.variant, (SliceVal(new, lit.fields[0].tag),)))
    return old, new


def shrink_later(I, st, ref):
    """like shrink, but the write-back is returned as a thunk: frame stores are not undone when a later choice point re-executes the call"""
    lit = lit_of(I, st, ref)
    old = lit.fields[0].len
    lo, hi = st.itv(old)
    new = st.fresh('usize', 0, hi, 'len')
    st.assume(padd(new.p, old.p, -1), NONPOS)
    return old, new, (lambda: write_back(I, st, ref, Agg(LIT, lit.variant, (SliceVal(new, lit.fields[0].tag),))))


def summ_skip_zeroes(I, st, args, fid):
    shrink(I, st, args[0])
    return args[0]


def summ_accum_coeff(I, st, args, fid):
    old, new = shrink(I, st, args[0])
    c = deref(I, st, args[1])
    write_back(I, st, args[1], st.fresh('u128', tag='coeff'))
    return I.mk(st, 'usize', padd(old.p, new.p, -1), 0, None)


def summ_accum_exp(I, st, args, fid):
    e = deref(I, st, args[1])
    if st.itv(e) != (0, 0):
        raise Stop('summary of accum_exp needs *exp == 0 at the call site')
    old, new = shrink(I, st, args[0])
    write_back(I, st, args[1], st.fresh('isize', 0, EXP_MAX, 'exp'))
    return I.mk(st, 'usize', padd(old.p, new.p, -1), 0, None)


def summaries(db):
    return {helper(db, 'skip_leading_zeroes')['id']: summ_skip_zeroes,
            helper(db, 'accum_coeff')['id']: summ_accum_coeff,
            helper(db, 'accum_exp')['id']: summ_accum_exp}


# ----------------------------------------------------------------------------- value clause (coefficient magnitude), under contract A of the scanners
TWO127 = 2 ** 127
TWO128 = 2 ** 128
DBIG = 2 ** 700          # stands for "unbounded" (digit strings of any length)


def accum_flavour(db):
    """how accum_coeff combines digits, read off its body: every multiply / add on the accumulator is wrapping_* -> 'wrapping',
    saturating_* -> 'saturating'; anything else / mixed -> None (the contract below cannot be instantiated)"""
    fn = helper(db, 'accum_coeff')
    kinds = set()
    n = 0
    # the body and its closures (a local `shift_add` closure is still the scanner's own accumulation)
    bodies = [fn] + [g for g in db.fns.values() if g['id'].startswith(fn['id'] + '::{closure#')]
    for f_ in bodies:
        for bi, t, blk in mir.iter_calls(f_):
            path = mir.callee(t)[1] or ''
            if '<impl u128>::' in path:
                op = path.rsplit('::', 1)[1]
                if op in ('wrapping_mul', 'wrapping_add'):
                    kinds.add('wrapping')
                    n += 1
                elif op in ('saturating_mul', 'saturating_add'):
                    kinds.add('saturating')
                    n += 1
                elif op.endswith('_mul') or op.endswith('_add'):
                    kinds.add('other:' + op)
        # plain operators on u128 in the body would be another way to accumulate: not covered
        for blk in f_['blocks']:
            for s_ in blk.get('stmts', []):
                js = str(s_)
                if "'binop'" in js and ('Mul' in js or 'Add' in js) and 'u128' in js:
                    kinds.add('other:operator')
    if len(kinds) == 1 and n >= 2:
        return kinds.pop()
    return None


DIGITS = tuple(range(48, 58))


def record(st, kind, before, k, new_len, excl, val=None):
    """ghost trace of the scanners for the grammar clause: the run (kind, remaining length before it, its length) and what contract A promises
    about the byte that follows the run (it is not one of `excl`)"""
    g = dict(st.ghost)
    g['events'] = tuple(g.get('events', ())) + ((kind, before, pfreeze(st.norm(k))),)
    # the value term the contract introduced for this run (numeral so far / exponent), parallel to the events: used by selftest/abscover.py only
    g['values'] = tuple(g.get('values', ())) + ((kind, None if val is None else pfreeze(st.norm(val))),)
    be = dict(g.get('byte_excl') or {})
    key = pfreeze(st.norm(new_len))
    be[key] = tuple(sorted(set(be.get(key, ())) | set(excl)))
    g['byte_excl'] = be
    st.ghost = g
    a = st.atoms.lookup(('byteat', key))
    if a is not None and a in st.bounds and a not in st.subst:
        # the byte at that position was read before (e.g. by a sign test): it learns the promise now
        from ..poly import patom
        for v in excl:
            st.assume(padd(patom(a), pconst(v), -1), NEG | POS)


def value_summaries(db, flavour):
    """CONTRACT A (assumed): skip_leading_zeroes consumes the maximal prefix of '0' bytes; accum_coeff consumes the maximal prefix of k ASCII digits
    and leaves *coeff = fold(*coeff * 10^k + value of these digits) with the arithmetic flavour read off its body (modulo 2^128 / saturating at
    2^128-1), returning k; accum_exp likewise with exact arithmetic for at most 7 digits.  Ghost quantities: n = number of digits accumulated so far,
    D = their value as one decimal numeral (10^(n-1) <= D < 10^n when the first accumulated digit is known to be non-zero, else 0 <= D < 10^n)."""
    def s_skip(I, st, args, fid):
        before = pfreeze_len(st, lit_of(I, st, args[0]))
        old, new, commit_lit = shrink_later(I, st, args[0])
        st.decide(padd(old.p, new.p, -1), [ZERO, POS | NEG])           # any zero skipped at all? (decided on the path)
        commit_lit()
        lit = lit_of(I, st, args[0])
        st.ghost = dict(st.ghost, zskip=pfreeze_len(st, lit))
        record(st, 'zeros', before, padd(old.p, new.p, -1), new.p, (48,))
        return args[0]

    def s_coeff(I, st, args, fid):
        lit0 = lit_of(I, st, args[0])
        before = pfreeze_len(st, lit0)
        cin = deref(I, st, args[1])
        old, new, commit_lit = shrink_later(I, st, args[0])
        k = I.mk(st, 'usize', padd(old.p, new.p, -1), 0, None)
        g = dict(st.ghost)
        prev = g.get('digits')           # (D poly, n poly, lead, coeff poly)
        if prev is None:
            if st.itv(cin) != (0, 0):
                raise Stop('contract A: first accumulation must start from 0')
            nprev, dprev, lead_prev = pconst(0), pconst(0), None
        else:
            dprev, nprev, lead_prev, cprev = prev
            if not poly_eq(st, cin.p, dict(cprev)):
                raise Stop('contract A: the accumulator was changed between the two accumulations')
            dprev, nprev = dict(dprev), dict(nprev)
        kz = st.decide(k.p, [ZERO, POS | NEG])
        if kz == 0:
            # no digit consumed: nothing changes
            if prev is None:
                g['digits'] = (pfreeze(pconst(0)), pfreeze(pconst(0)), None, pfreeze(st.norm(cin.p)))
            g['k_last'] = pfreeze(pconst(0))
            st.ghost = g
            commit_lit()
            record(st, 'digits', before, pconst(0), new.p, DIGITS)
            return I.mk(st, 'usize', pconst(0))
        if lead_prev is None:
            # first digit accumulated at all: non-zero iff we stand right behind skip_leading_zeroes
            lead = g.get('zskip') == before
        else:
            lead = lead_prev
        n = st.norm(padd(nprev, k.p))
        cls = st.decide(padd(n, pconst(39), -1), [NEG, ZERO, POS])
        lo_d = 0
        if cls == 0:
            lo_d, hi_d = (1 if lead else 0), 10 ** 38 - 1
        elif cls == 1:
            lo_d, hi_d = (10 ** 38 if lead else 0), 10 ** 39 - 1
        else:
            lo_d, hi_d = (10 ** 39 if lead else 0), DBIG
        D = st.fresh_big('D', lo_d, hi_d) if hasattr(st, 'fresh_big') else None
        if D is None:
            a = st.atoms.fresh('D')
            st._jset('bounds', a, (lo_d, hi_d))
            from ..poly import patom
            D = patom(a)
        st.assume(padd(D, dprev, -1), NONNEG)           # appending digits does not decrease the numeral
        if flavour == 'wrapping':
            if hi_d < TWO128:
                w = I.mk(st, 'u128', D, 0, TWO128 - 1)
            elif hi_d < 3 * TWO128:
                T = I.tdiv_atom(st, st.norm(D), pconst(TWO128))
                w = I.mk(st, 'u128', padd(D, pscale(T, TWO128), -1), 0, TWO128 - 1)
            else:
                w = st.fresh('u128', tag='wrapped')
        else:
            big = st.decide(padd(D, pconst(TWO128), -1), [NEG, ZERO | POS])
            w = I.mk(st, 'u128', D, 0, TWO128 - 1) if big == 0 else K(TWO128 - 1, 'u128')
        commit_lit()
        write_back(I, st, args[1], w)
        g['digits'] = (pfreeze(st.norm(D)), pfreeze(n), lead, pfreeze(st.norm(w.p)))
        g['k_last'] = pfreeze(st.norm(k.p))
        g['n_calls'] = g.get('n_calls', 0) + 1
        st.ghost = g
        record(st, 'digits', before, k.p, new.p, DIGITS, D)
        return k

    def s_exp(I, st, args, fid):
        e = deref(I, st, args[1])
        if st.itv(e) != (0, 0):
            raise Stop('summary of accum_exp needs *exp == 0 at the call site')
        before = pfreeze_len(st, lit_of(I, st, args[0]))
        old, new, commit_lit = shrink_later(I, st, args[0])
        k = I.mk(st, 'usize', padd(old.p, new.p, -1), 0, None)
        st.decide(k.p, [ZERO, POS | NEG])
        small = st.decide(padd(k.p, pconst(2), -1), [NEG | ZERO, POS])
        lead = st.ghost.get('zskip') == before        # right behind skip_leading_zeroes: the first exponent digit (if any) is not '0'
        if small == 0:
            E = st.fresh('isize', 0, 99, 'E')
        else:
            E = st.fresh('isize', 100 if lead else 0, EXP_MAX, 'E')       # three or more digits, the first one non-zero: at least 100
        commit_lit()
        write_back(I, st, args[1], E)
        st.ghost = dict(st.ghost, E=pfreeze(st.norm(E.p)))
        record(st, 'expdigits', before, k.p, new.p, DIGITS, E.p)
        return k
    return {helper(db, 'skip_leading_zeroes')['id']: s_skip, helper(db, 'accum_coeff')['id']: s_coeff, helper(db, 'accum_exp')['id']: s_exp}


def pfreeze_len(st, lit):
    from ..poly import pfreeze
    return pfreeze(st.norm(lit.fields[0].len.p))


def wrap_cases(s, D):
    """case split of path s over the number of wrap-arounds j = D div 2^128 (when the wrapping contract introduced it): states with j fixed"""
    from ..poly import patom
    a = s.atoms.lookup(('tdiv', pfreeze(s.norm(D)), pfreeze(pconst(TWO128))))
    if a is None or a in s.subst or a not in s.bounds:
        return [s]
    lo, hi = s.bounds[a]
    if lo == hi or hi - lo > 4:
        return [s]
    res = []
    for j in range(lo, hi + 1):
        s2 = s.clone()
        s2.journal = None
        try:
            s2.assume(padd(patom(a), pconst(j), -1), ZERO)
            s2.range_of(D)
            res.append(s2)
        except Infeasible:
            pass
    return res


_EXPLORED = {}


def explore_parser(db):
    """one exploration of str_to_dec over the contract-A summaries with position-keyed bytes, shared by the value and the grammar oracle"""
    if 'r' not in _EXPLORED:
        flavour = accum_flavour(db)
        fn = db.fns.get(P + 'str_to_dec')
        if flavour is None or fn is None:
            _EXPLORED['r'] = (flavour, fn, None, None)
        else:
            opts = Opts(summaries=value_summaries(db, flavour), max_paths=50000)
            opts.byte_positions = True
            I = Interp(db, opts)
            st = I.new_state()
            st.decomp_depth = 2
            L0 = st.sym('len', 0, MAXLEN, 'usize')
            I.call_root(st, fn, [SliceVal(L0, 'str')])
            _EXPLORED['r'] = (flavour, fn, L0, I.explore(st))
    return _EXPLORED['r']


def job_value(db):
    from ..poly import pneg
    from ..harness import res_parts
    bad = []
    flavour, fn, L0, outs = explore_parser(db)
    if outs is None:
        return [('V-PARSE-VALUE', 'str_to_dec', False, 'accum_coeff does not accumulate with wrapping_* or saturating_* operations only: contract A cannot be instantiated', None)]
    n_ok = n_ovf = 0
    for o in outs:
        s = o.state
        if o.kind != 'ret':
            bad.append(show_outcome(o)[:200])
            continue
        rp = res_parts(o.value)
        if rp is None:
            bad.append('not a Result: %s' % show_outcome(o)[:200])
            continue
        g = s.ghost
        dig = g.get('digits')
        if rp[0] == 'ok':
            v = rp[1]
            if not (isinstance(v, Agg) and len(v.fields) == 2 and isinstance(v.fields[0], Int) and isinstance(v.fields[1], Int)):
                bad.append('Ok payload is not (i128, isize): %s' % show_outcome(o)[:200])
                continue
            c, e = v.fields
            if dig is None:
                if not (s.itv(c) == (0, 0) and s.itv(e) == (0, 0)):
                    bad.append('Ok without accumulated digits must be (0, 0)')
                continue
            n_ok += 1
            D, n, lead, w = dict(dig[0]), dict(dig[1]), dig[2], dict(dig[3])
            if not (poly_eq(s, c.p, D) or poly_eq(s, c.p, pneg(D))):
                bad.append('Ok((c, e)): c = %s is not +-(the digits of the literal as a number) D = %s on a path with %s digits%s: an overflowed accumulation is accepted'
                           % (show_poly(s, c.p)[:120], show_poly(s, D)[:60], show_poly(s, n)[:40], '' if lead else ' (possibly leading zeros)'))
                continue
            if not s.sign(padd(D, pconst(TWO127), -1)) <= NEG:
                bad.append('Ok although D <= i128::MAX is not implied by the path')
            kf = dict(g.get('k_last', pfreeze(pconst(0)))) if g.get('n_calls', 0) >= 2 or g.get('frac_seen') else None
            # exponent: e + (number of fractional digits) = +-E, or 0 without an exponent part
            E = g.get('E')
            rest = [padd(e.p, dict(g['k_last'])), e.p]           # with / without fractional digits accumulated last
            okx = False
            for r_ in rest:
                if E is None:
                    okx = okx or poly_eq(s, r_, pconst(0))
                else:
                    okx = okx or poly_eq(s, r_, dict(E)) or poly_eq(s, r_, pneg(dict(E)))
            if not okx:
                bad.append('Ok((c, e)): e = %s is not (+-explicit exponent) - (number of fractional digits)' % show_poly(s, e.p)[:100])
        else:
            kind = variant_name(db, rp[1])
            if kind == 'InternalOverflow':
                n_ovf += 1
                if dig is None:
                    bad.append('InternalOverflow before any digit was accumulated')
                    continue
                D, n, lead = dict(dig[0]), dict(dig[1]), dig[2]
                weak = [s2 for s2 in wrap_cases(s, D) if not s2.sign(padd(D, pconst(TWO127), -1)) <= (ZERO | POS)]
                if weak:
                    lo_, hi_ = weak[0].range_of(D)
                    bad.append('Err(InternalOverflow) on a path where the literal\'s digits D may be as small as %s (%s digits%s): a coefficient that fits is rejected'
                               % (lo_, show_poly(s, n)[:40], '' if lead else ', possibly leading zeros'))
    if n_ok == 0:
        bad.append('no Ok path with digits')
    if n_ovf == 0:
        bad.append('no InternalOverflow path')
    # de-duplicate messages
    seen = []
    for b in bad:
        if b not in seen:
            seen.append(b)
    return [('V-PARSE-VALUE', 'str_to_dec', not seen, ' | '.join(seen[:4]) or 'accumulation=%s, paths=%d (Ok with digits: %d, InternalOverflow: %d)' % (flavour, len(outs), n_ok, n_ovf),
             span_str(fn.get('span')) if seen else None)]


# ----------------------------------------------------------------------------- the byte-at-a-time loops of the scanners, one iteration at a time
def allowed_at(s, pos):
    """set of byte values the byte at position `pos` (a remaining-length term) may still have on path s; None if nothing is known about it"""
    from ..poly import patom, pthaw, pis_const
    fk = pfreeze(s.norm(pos))
    same = [i_ for i_ in set(s.bounds) | set(s.subst)
            if s.atoms.desc[i_][0] == 'byteat' and (s.atoms.desc[i_][1] == fk or pfreeze(s.norm(pthaw(s.atoms.desc[i_][1]))) == fk)]
    if not same:
        return None
    allowed = set(range(256))
    for a in same:
        cv = pis_const(s.norm(patom(a)))
        if cv is not None:
            allowed &= {cv}
            continue
        lo, hi = s.bounds.get(a, (0, 255))
        f = s.forms.get((((a,), 1),))
        ex = set(f[2]) if f else set()
        if f:
            lo = max(lo, f[0]) if f[0] is not None else lo
            hi = min(hi, f[1]) if f[1] is not None else hi
        allowed &= set(v for v in range(max(lo, 0), min(hi, 255) + 1) if v not in ex)
    return allowed


class ScanHook:
    """loop hook of the scanner helpers: one iteration from the generalised state must (a) consume exactly one byte (eight in the SWAR loop),
    (b) have tested that byte to be in the scanner's class, (c) update the accumulator as fold(10 * old + digit).  By induction the consumed run
    consists of class bytes and the accumulator is the fold over its digits; that the run is maximal is the exit test (checked by the job)."""

    def __init__(self, name, flavour):
        self.name, self.flavour = name, flavour
        self.steps = set()

    def on_generalise(self, I, st, fr, snap_old, snap_new, gen):
        pass

    def fail(self, st, msg):
        st.ghost = dict(st.ghost, hook_msg=msg)
        return False

    def on_rearrival(self, I, st, fr, gen):
        from ..poly import patom, pis_const
        g_lit = gen['snap']['frames'][0][1].get(100)
        c_lit = st.frames[0].L.get(100)
        if not (isinstance(g_lit, Agg) and isinstance(c_lit, Agg)):
            return self.fail(st, 'literal lost at the loop head')
        gL, cL = g_lit.fields[0].len, c_lit.fields[0].len
        step = pis_const(st.norm(padd(gL.p, cL.p, -1)))
        if step == 8 and self.name == 'accum_coeff':
            # SWAR step (the pair of bit-trick functions is summarised by what H-SWAR proves about it): the eight bytes consumed are digits and
            # the accumulator is fold(10^8 * old + the number they spell)
            g_acc = gen['snap']['frames'][0][1].get(101)
            c_acc = st.frames[0].L.get(101)
            val = {}
            lanes = st.ghost.get('last_chunk')
            if not lanes or len(lanes) != 8:
                return self.fail(st, 'the 8-byte step did not convert a chunk of eight digit bytes')
            for j, fl_ in enumerate(lanes):
                bp = dict(fl_)
                ls = plinear_single_(bp)
                d_ = st.atoms.desc[ls[0]] if ls else None
                pos = padd(gL.p, pconst(j), -1)
                if not (d_ and d_[0] == 'byteat' and poly_eq(st, dict(d_[1]), pos)):
                    return self.fail(st, 'lane %d of the converted chunk is not the byte at position %d of the step' % (j, j))
                # (that the byte is a digit was established when the chunk was converted: the summary records a chunk only then)
                val = padd(val, pscale(padd(bp, pconst(48), -1), 10 ** (7 - j)))
            want = padd(pscale(g_acc.p, 10 ** 8), val)
            cur = st.norm(c_acc.p)
            ok = poly_eq(st, cur, want)
            if not ok and self.flavour == 'saturating':
                ok = st.sign(padd(cur, pconst(TWO128 - 1), -1)) == ZERO and st.sign(padd(want, pconst(TWO128 - 1), -1)) <= (ZERO | POS)
            if not ok and self.flavour == 'wrapping':
                ls = plinear_single_(cur)
                mr = st.modrep.get(ls[0]) if ls else None
                ok = mr is not None and mr[1] == TWO128 and poly_eq(st, dict(mr[0]), want)
            if not ok:
                return self.fail(st, 'accumulator after the 8-byte step is %s (range %s; sign of the unfolded value minus 2^128-1: %s), expected fold(10^8 * old + the eight digits)'
                                 % (st.atoms.pstr(cur)[:80], st.range_of(cur), sorted(st.sign(padd(want, pconst(TWO128 - 1), -1)))))
            self.steps.add(8)
            return True
        if step != 1:
            return self.fail(st, 'one iteration consumes %s bytes, expected exactly one' % (step,))
        al = allowed_at(st, gL.p)
        cls = {48} if self.name == 'skip_leading_zeroes' else set(DIGITS)
        if al is None or not al <= cls:
            return self.fail(st, 'the consumed byte is not known to be %s' % ("'0'" if len(cls) == 1 else 'a digit'))
        if self.name != 'skip_leading_zeroes':
            g_acc = gen['snap']['frames'][0][1].get(101)
            c_acc = st.frames[0].L.get(101)
            if not (isinstance(g_acc, Int) and isinstance(c_acc, Int)):
                return self.fail(st, 'accumulator lost at the loop head')
            # digit = byte - 48 for the byte atom(s) of that position
            fk = pfreeze(st.norm(gL.p))
            batoms = [i_ for i_ in set(st.bounds) | set(st.subst) if st.atoms.desc[i_][0] == 'byteat' and st.atoms.desc[i_][1] == fk]
            if not batoms:
                return self.fail(st, 'byte atom of the consumed position not found')
            digit = padd(patom(batoms[0]), pconst(48), -1)
            want = padd(pscale(g_acc.p, 10), digit)
            cur = st.norm(c_acc.p)
            ok = False
            if poly_eq(st, cur, want):
                ok = True               # exact step (no overflow on this path)
            elif self.name == 'accum_coeff' and self.flavour == 'saturating':
                # min(10 * old + digit, 2^128 - 1): the saturated branch
                ok = st.sign(padd(cur, pconst(TWO128 - 1), -1)) == ZERO and st.sign(padd(want, pconst(TWO128 - 1), -1)) <= (ZERO | POS)
            elif self.name == 'accum_coeff' and self.flavour == 'wrapping':
                ls = plinear_single_(cur)
                mr = st.modrep.get(ls[0]) if ls else None
                ok = mr is not None and mr[1] == TWO128 and poly_eq(st, dict(mr[0]), want)
            elif self.name == 'accum_exp':
                ok = poly_eq(st, cur, g_acc.p) and st.sign(padd(g_acc.p, pconst(0x1000000), -1)) <= (ZERO | POS)      # the guard `*exp < 0x1000000` failed: unchanged
            if not ok:
                return self.fail(st, 'accumulator after one step is %s, expected fold(10 * old + digit)' % st.atoms.pstr(cur)[:80])
        self.steps.add(1)
        return True


def plinear_single_(p):
    from ..poly import plinear_single
    ls = plinear_single(p)
    return ls if ls is not None and ls[1] == 1 and ls[2] == 0 else None


def swar_summaries():
    """the SWAR pair as proved by H-SWAR: contains(k) true only if all eight bytes are digits; chunk_to_u64 of eight digit bytes is the number they spell"""
    from ..absint import Lanes

    def s_contains(I, st, args, fid):
        k = args[0]
        if not isinstance(k, Lanes):
            raise Stop('chunk_contains_8_digits on %r' % (k,))
        if st.choose(2) == 0:
            for b in k.lanes:
                st.assume_in_range(b.p, 48, 57)
            return K(1, 'bool')
        return K(0, 'bool')

    def s_value(I, st, args, fid):
        k = args[0]
        if not isinstance(k, Lanes):
            raise Stop('chunk_to_u64 on %r' % (k,))
        v = {}
        for j, b in enumerate(k.lanes):
            lo, hi = st.itv(b)
            if lo < 48 or hi > 57:
                return st.fresh('u64', tag='chunk')
            v = padd(v, pscale(padd(b.p, pconst(48), -1), 10 ** (7 - j)))
        st.ghost = dict(st.ghost, last_chunk=tuple(pfreeze(b.p) for b in k.lanes))
        return I.mk(st, 'u64', v, 0, 10 ** 8 - 1)
    from .. import roles as _roles
    from ..harness import get_db as _gdb
    return {_roles.resolve(_gdb(), 'SWAR_TEST'): s_contains, _roles.resolve(_gdb(), 'SWAR_VALUE'): s_value}


def job_scan(db, name):
    """the run part of contract A for the byte-at-a-time loops, proved: every iteration consumes one byte of the class and folds its digit;
    on return the next byte (if any) is outside the class"""
    fn = helper(db, name)
    flavour = accum_flavour(db)
    bad = []
    opts = Opts(max_paths=20000, summaries=swar_summaries())
    opts.unroll_loops = False
    opts.byte_positions = True
    hook = ScanHook(name, flavour)
    opts.loop_hooks = {fn['id']: hook}
    I = Interp(db, opts)
    st = I.new_state()
    L0 = st.sym('len', 0, MAXLEN, 'usize')
    lit = Agg(LIT, 0, (SliceVal(L0, 'bytes'),))
    args = [ByRef(lit)]
    if name == 'accum_coeff':
        args.append(ByRef(st.sym('coeff', 0, 2**128 - 1, 'u128')))
    elif name == 'accum_exp':
        args.append(ByRef(K(0, 'isize')))
    I.call_root(st, fn, args)
    outs = I.explore(st)
    nret = 0
    cls = {48} if name == 'skip_leading_zeroes' else set(DIGITS)
    for o in outs:
        s = o.state
        if o.kind != 'ret':
            bad.append('%s%s' % (show_outcome(o)[:160], (' [' + s.ghost.get('hook_msg', '') + ']') if s.ghost.get('hook_msg') else ''))
            continue
        nret += 1
        lit2 = s.frames[0].L.get(100)
        L1 = lit2.fields[0].len
        if s.sign(L1.p) == ZERO:
            continue                     # end of input
        al = allowed_at(s, L1.p)
        if al is None or (al & cls):
            if 0 in s.sign(L1.p) and al is None:
                continue                 # the loop left because the input is exhausted on this path (len may be 0: no byte was read)
            bad.append('on return the next byte may still be %s (the run is not known to be maximal)' % ("'0'" if len(cls) == 1 else 'a digit'))
    if nret == 0:
        bad.append('no returning path')
    if 1 not in hook.steps:
        bad.append('no single-byte iteration was checked')
    if name == 'accum_coeff' and 8 not in hook.steps:
        bad.append('the 8-byte iteration was not checked')
    seen = []
    for b in bad:
        if b not in seen:
            seen.append(b)
    return [('H-SCAN-STEP', name, not seen, '; '.join(seen[:3]) or 'paths=%d; iterations checked: %s' % (len(outs), sorted(hook.steps)), span_str(fn.get('span')) if seen else None)]


# ----------------------------------------------------------------------------- the SWAR pair of the 8-digit step
def job_swar(db, what, cell):
    """(1) chunk_contains_8_digits(k) is false whenever some byte of k is not an ASCII digit: one cell per (index j of the lowest non-digit byte,
    class of that byte: below '0' / ':'..0xB9 / 0xBA..0xFF), bytes below j digits, bytes above j arbitrary; plus the all-digits cell (true).
    (2) for eight digit bytes chunk_to_u64(k) is the number they spell (first byte most significant)."""
    from ..absint import Lanes
    bad = []
    if what == 'contains':
        from .. import roles as _roles
        fn = _roles.fn(db, 'SWAR_TEST')
        if fn is None:
            return [('H-SWAR', 'contains;%s' % (cell,), False, 'chunk_contains_8_digits not found', None)]
        I = Interp(db, Opts(max_paths=200))
        st = I.new_state()
        lanes = []
        j0, cls = cell
        for j in range(8):
            if j0 is None or j < j0:
                lo, hi = 48, 57
            elif j == j0:
                lo, hi = {'low': (0, 47), 'mid': (58, 185), 'high': (186, 255)}[cls]
            else:
                lo, hi = 0, 255
            lanes.append(st.sym('b%d' % j, lo, hi, 'u8'))
        I.call_root(st, fn, [Lanes('u64', lanes)])
        outs = I.explore(st)
        want = 1 if j0 is None else 0
        for o in outs:
            if o.kind != 'ret' or not isinstance(o.value, Int) or o.state.itv(o.value) != (want, want):
                bad.append('expected %s: %s' % (bool(want), show_outcome(o)[:200]))
        if not outs:
            bad.append('no outcome')
        key = 'contains;%s' % ('all-digits' if j0 is None else 'byte%d=%s' % (j0, cls))
        return [('H-SWAR', key, not bad, '; '.join(bad[:2]) or 'returns %s' % bool(want), span_str(fn.get('span')) if bad else None)]
    from .. import roles as _roles
    fn = _roles.fn(db, 'SWAR_VALUE')
    if fn is None:
        return [('H-SWAR', 'value', False, 'chunk_to_u64 not found', None)]
    I = Interp(db, Opts(max_paths=200))
    st = I.new_state()
    ds = [st.sym('d%d' % j, 0, 9, 'u64') for j in range(8)]
    k = {}
    want = {}
    for j, d in enumerate(ds):
        k = padd(k, pscale(padd(d.p, pconst(48)), 256 ** j))
        want = padd(want, pscale(d.p, 10 ** (7 - j)))
    I.call_root(st, fn, [I.mk(st, 'u64', k)])
    outs = I.explore(st)
    for o in outs:
        if o.kind != 'ret' or not isinstance(o.value, Int) or not poly_eq(o.state, o.value.p, want):
            bad.append('expected d0*10^7 + ... + d7: %s' % show_outcome(o)[:300])
    if not outs:
        bad.append('no outcome')
    return [('H-SWAR', 'value', not bad, '; '.join(bad[:2]) or 'paths=%d: the number spelled by the eight digits' % len(outs), span_str(fn.get('span')) if bad else None)]


SWAR_JOBS = [('swar', ('contains', (None, None)))] + [('swar', ('contains', (j, c))) for j in range(8) for c in ('low', 'mid', 'high')] + [('swar', ('value', None))]


# ----------------------------------------------------------------------------- grammar clause: which byte strings are accepted
def abstract_string(s, L0):
    """the input string as far as path s knows it: tokens ('CH', byte) | ('zeros',) | ('digits',) | ('expdigits',) (runs of >= 1 digit bytes promised
    by contract A) | ('BYTE', allowed set), closed by ('END',) | ('UNKNOWN',) (unread tail, possibly empty) | ('UNDECIDED',).
    Positions are remaining lengths: L0 at the first byte; a run of k bytes or a single byte moves on by k resp. 1."""
    from ..poly import patom, pthaw, pis_const
    events = list(s.ghost.get('events', ()))
    toks = []
    cur = s.norm(L0)
    # the byte atoms of this path with their positions under the final substitution
    mine = [(i_, pfreeze(s.norm(pthaw(s.atoms.desc[i_][1])))) for i_ in set(s.bounds) | set(s.subst) if s.atoms.desc[i_][0] == 'byteat']
    for _ in range(60):
        if events and poly_eq(s, cur, dict(events[0][1])):
            kind, _b, kf = events.pop(0)
            k = dict(kf)
            sg = s.sign(k)
            if sg == ZERO:
                continue
            if 0 in sg:
                return toks + [('UNDECIDED',)]
            toks.append((kind,))
            cur = s.norm(padd(cur, k, -1))
            continue
        sc = s.sign(cur)
        if sc == ZERO:
            return toks + [('END',)]
        fk = pfreeze(s.norm(cur))
        if 0 in sc:
            # the string may end here; if it does not, contract A may still promise something about the next byte
            promised = set()
            for k_, vs in (s.ghost.get('byte_excl') or {}).items():
                if k_ == fk or pfreeze(s.norm(pthaw(k_))) == fk:
                    promised |= set(vs)
            if promised:
                return toks + [('MAYBE', frozenset(set(range(256)) - promised))]
            return toks + [('UNKNOWN',)]
        # every atom of this path that stands for the byte at this position (substitutions may have renamed the position after an atom was made)
        same = [i_ for i_, k1 in mine if k1 == fk]
        promised = set()
        for k_, vs in (s.ghost.get('byte_excl') or {}).items():
            if k_ == fk or pfreeze(s.norm(pthaw(k_))) == fk:
                promised |= set(vs)
        if not same and not promised:
            return toks + [('UNKNOWN',)]
        allowed = set(range(256)) - promised
        for a in same:
            cv = pis_const(s.norm(patom(a)))
            if cv is not None:
                allowed &= {cv}
                continue
            lo, hi = s.bounds.get(a, (0, 255))
            f = s.forms.get((((a,), 1),))
            ex = set(f[2]) if f else set()
            if f:
                lo = max(lo, f[0]) if f[0] is not None else lo
                hi = min(hi, f[1]) if f[1] is not None else hi
            allowed &= set(v for v in range(max(lo, 0), min(hi, 255) + 1) if v not in ex)
        if not allowed:
            return toks + [('UNDECIDED',)]
        if len(allowed) == 1:
            toks.append(('CH', next(iter(allowed))))
            cur = s.norm(padd(cur, pconst(1), -1))
            continue
        return toks + [('BYTE', frozenset(allowed)), ('UNKNOWN',)]
    return toks + [('UNDECIDED',)]


# the literal grammar of the statement as a DFA over byte classes:  [+|-](digits[.digits*] | .digits)[(e|E)[+|-]digits]
G_ACCEPT = {2, 3, 4, 8}
G_TRANS = {0: {'s': 1, 'd': 2, '.': 5}, 1: {'d': 2, '.': 5}, 2: {'d': 2, '.': 3, 'e': 6}, 3: {'d': 4, 'e': 6}, 4: {'d': 4, 'e': 6}, 5: {'d': 4},
           6: {'s': 7, 'd': 8}, 7: {'d': 8}, 8: {'d': 8}}


def byte_class(v):
    if v in (43, 45):
        return 's'
    if 48 <= v <= 57:
        return 'd'
    if v == 46:
        return '.'
    if v in (101, 69):
        return 'e'
    return 'x'


def grammar_verdict(toks):
    """(may_be_valid, may_be_invalid, complete) over all concrete strings matching the token list"""
    states = {0}
    for tk in toks:
        if tk[0] in ('zeros', 'digits', 'expdigits'):
            states = set(G_TRANS.get(q, {}).get('d', 'DEAD') for q in states)
        elif tk[0] == 'CH':
            c = byte_class(tk[1])
            states = set(G_TRANS.get(q, {}).get(c, 'DEAD') for q in states)
        elif tk[0] == 'BYTE':
            states = set(G_TRANS.get(q, {}).get(byte_class(v), 'DEAD') for q in states for v in tk[1])
        elif tk[0] == 'END':
            return (any(q in G_ACCEPT for q in states), any(q not in G_ACCEPT for q in states), True)
        elif tk[0] == 'UNKNOWN':
            return (any(q != 'DEAD' for q in states), True, False)
        elif tk[0] == 'MAYBE':
            # either the end of the string, or one of the allowed bytes followed by anything
            nxt = set(G_TRANS.get(q, {}).get(byte_class(v), 'DEAD') for q in states for v in tk[1])
            return (any(q in G_ACCEPT for q in states) or any(q != 'DEAD' for q in nxt), True, False)
        else:
            return (True, True, False)
    return (True, True, False)


def show_toks(toks):
    out = []
    for tk in toks:
        if tk[0] == 'CH':
            out.append(repr(chr(tk[1])))
        elif tk[0] == 'BYTE':
            out.append('<one of %d bytes>' % len(tk[1]))
        else:
            out.append({'zeros': '0+', 'digits': 'digit+', 'expdigits': 'digit+', 'END': '$', 'UNKNOWN': '...', 'UNDECIDED': '??', 'MAYBE': '($ | <one of %d bytes> ...)' % (len(tk[1]) if len(tk) > 1 else 0)}[tk[0]])
    return ' '.join(out)


def job_grammar(db):
    from ..poly import pneg
    from ..harness import res_parts
    flavour, fn, L0, outs = explore_parser(db)
    if outs is None:
        return [('G-PARSE-GRAMMAR', 'str_to_dec', False, 'contract A cannot be instantiated (see V-PARSE-VALUE)', None)]
    bad = []
    stats = {}
    for o in outs:
        s = o.state
        if o.kind != 'ret':
            bad.append(show_outcome(o)[:200])
            continue
        rp = res_parts(o.value)
        if rp is None:
            bad.append('not a Result')
            continue
        toks = abstract_string(s, L0.p)
        mv, mi, complete = grammar_verdict(toks)
        shape = show_toks(toks)
        kind = 'Ok' if rp[0] == 'ok' else variant_name(db, rp[1])
        stats[kind] = stats.get(kind, 0) + 1
        if kind == 'Ok':
            if mi:
                bad.append('Ok for the input shape  %s  which is %s a literal of the grammar' % (shape, 'not' if not mv else 'not necessarily'))
                continue
            # sign association: coefficient and exponent carry the signs written in the literal
            v = rp[1]
            dig = s.ghost.get('digits')
            if dig is not None and isinstance(v, Agg) and len(v.fields) == 2:
                c, e = v.fields
                D = dict(dig[0])
                neg = bool(toks) and toks[0] == ('CH', 45)
                if not poly_eq(s, c.p, pneg(D) if neg else D):
                    bad.append('sign of the coefficient does not follow the literal\'s sign byte for the shape  %s' % shape)
                E = s.ghost.get('E')
                if E is not None:
                    ie = [i for i, tk in enumerate(toks) if tk[0] == 'CH' and tk[1] in (101, 69)]
                    eneg = bool(ie) and ie[0] + 1 < len(toks) and toks[ie[0] + 1] == ('CH', 45)
                    kf = dict(s.ghost['k_last']) if any(tk == ('CH', 46) for tk in toks) else pconst(0)
                    if not poly_eq(s, padd(e.p, kf), pneg(dict(E)) if eneg else dict(E)):
                        bad.append('sign of the exponent does not follow the literal for the shape  %s' % shape)
        elif kind == 'Empty':
            if toks != [('END',)]:
                bad.append('Err(Empty) for the non-empty shape  %s' % shape)
        elif kind == 'Invalid':
            if mv:
                bad.append('Err(Invalid) for the input shape  %s  which %s a literal of the grammar' % (shape, 'is' if not mi else 'may be'))
            elif toks == [('END',)]:
                bad.append('the empty string must give Err(Empty)')
        elif kind == 'InternalOverflow':
            pass        # justified by the value clause (V-PARSE-VALUE): the digits exceed i128::MAX, so no completion can be Ok
        elif kind == 'FracDigitLimitExceeded':
            E = s.ghost.get('E')
            huge = E is not None and s.sign(padd(dict(E), pconst(100), -1)) <= (ZERO | POS)
            # an exponent of magnitude >= 100 can never be folded into a Decimal (more than 18 fractional digits resp. beyond 10^38),
            # whatever follows: the early return is then justified
            if mv and not complete and not huge:
                bad.append('Err(FracDigitLimitExceeded) before the end of the input for the shape  %s : completions that are literals with at most 18 fractional digits exist' % shape)
        else:
            bad.append('unexpected error kind %s' % kind)
    if not outs:
        bad.append('no outcome')
    seen = []
    for b in bad:
        if b not in seen:
            seen.append(b)
    return [('G-PARSE-GRAMMAR', 'str_to_dec', not seen, ' | '.join(seen[:40]) or 'paths=%d %s' % (len(outs), sorted(stats.items())), span_str(fn.get('span')) if seen else None)]


def classify(outs, bad):
    n = 0
    for o in outs:
        if o.kind == 'ret':
            n += 1
        elif o.kind == 'panic':
            bad.append('panic edge %s %s at %s' % (o.value, {k: v for k, v in (o.info or {}).items() if k != 'term'}, o.site))
        else:
            bad.append('analysis incomplete: %s at %s' % (o.info, o.site))
    return n


def run_job(job):
    kind, name = job
    db = get_db()
    setup_thresholds(db)
    bad = []
    if kind == 'scan':
        return job_scan(db, name)
    if kind == 'swar':
        return job_swar(db, name[0], name[1])
    if kind == 'value+grammar':
        return job_value(db) + job_grammar(db)
    if kind == 'helper':
        fn = helper(db, name)
        opts = Opts(max_paths=20000)
        opts.unroll_loops = False
        opts.byte_positions = True          # repeated reads of one position agree (slice patterns read an element more than once)
        I = Interp(db, opts)
        st = I.new_state()
        L0 = st.sym('len', 0, MAXLEN, 'usize')
        lit = Agg(LIT, 0, (SliceVal(L0, 'bytes'),))
        args = [ByRef(lit)]
        if name == 'accum_coeff':
            args.append(ByRef(st.sym('coeff', 0, 2**128 - 1, 'u128')))
        elif name == 'accum_exp':
            args.append(ByRef(K(0, 'isize')))
        I.call_root(st, fn, args)
        outs = I.explore(st)
        nret = classify(outs, bad)
        for o in outs:
            if o.kind != 'ret':
                continue
            s = o.state
            lit2 = s.frames[0].L.get(100)
            if not (isinstance(lit2, Agg) and isinstance(lit2.fields[0], SliceVal)):
                bad.append('literal lost: %r' % (lit2,))
                continue
            L1 = lit2.fields[0].len
            if not s.sign(padd(L1.p, L0.p, -1)) <= NONPOS:
                bad.append('post: remaining length <= initial length not established')
            if name in ('accum_coeff', 'accum_exp'):
                if not (isinstance(o.value, Int) and poly_eq(s, o.value.p, padd(L0.p, L1.p, -1))):
                    bad.append('post: returns consumed byte count len - len\' not established: %s' % show_outcome(o)[:200])
            if name == 'accum_exp':
                e = s.frames[0].L.get(101)
                lo, hi = s.itv(e)
                if lo < 0 or hi > EXP_MAX:
                    bad.append('post: 0 <= exp <= %d not established: [%s, %s]' % (EXP_MAX, lo, hi))
        if nret == 0:
            bad.append('no returning path')
        return [('H-PARSER-HELPER', name, not bad, '; '.join(bad[:3]) or 'paths=%d: no panic, unsafe preconditions hold, summary established' % len(outs), span_str(fn.get('span')) if bad else None)]
    # roots with the helper summaries
    if name == 'str_to_dec':
        fn = db.fns.get(P + 'str_to_dec')
    else:
        fn = db.find_impl_fn('core::str::traits::FromStr', ['Decimal'], 'from_str')
    if fn is None:
        return [('R-NOPANIC', name, False, 'root not found', None)]
    I = Interp(db, Opts(summaries=summaries(db), max_paths=50000))
    st = I.new_state()
    st.decomp_depth = 2
    I.call_root(st, fn, [SliceVal(st.sym('len', 0, MAXLEN, 'usize'), 'str')])
    outs = I.explore(st)
    nret = classify(outs, bad)
    kinds = set()
    for o in outs:
        if o.kind == 'ret' and isinstance(o.value, Agg) and o.value.kind == RESULT:
            kinds.add('Ok' if o.value.variant == 0 else 'Err(%s)' % variant_name(db, o.value.fields[0]))
    if nret == 0:
        bad.append('no returning path')
    return [('R-NOPANIC', name, not bad, '; '.join(bad[:4]) or 'paths=%d, all return; result classes %s' % (len(outs), sorted(kinds)), span_str(fn.get('span')) if bad else None)]


def run(rep, tier):
    db = get_db()
    rep.tree_hash = db.tree_hash
    rep.configs = ['default']
    rep.level = 'other'
    jobs = [('helper', 'skip_leading_zeroes'), ('helper', 'accum_coeff'), ('helper', 'accum_exp'), ('root', 'str_to_dec'), ('root', 'from_str'), ('value+grammar', None),
            ('scan', 'skip_leading_zeroes'), ('scan', 'accum_coeff'), ('scan', 'accum_exp')] + SWAR_JOBS
    run_jobs(rep, __name__, jobs, nproc=12, chunk=1)
    rep.floor('H-SCAN-STEP', 3)
    rep.floor('H-SWAR', len(SWAR_JOBS))
    rep.floor('G-PARSE-GRAMMAR', 1)
    rep.floor('H-PARSER-HELPER', 3)
    rep.floor('R-NOPANIC', 2)
    rep.floor('V-PARSE-VALUE', 1)
    # unsafe inventory of the parser: every unsafe call is one of the modelled operations
    modelled = ('skip_n', 'skip_1', 'read_u64_unchecked', 'get_unchecked', 'read_unaligned')
    n = 0
    for f in db.fns.values():
        if not f['id'].startswith(P):
            continue
        ordn = {}
        for bi, t, blk in mir.iter_calls(f):
            c = t['call'].get('const') if isinstance(t['call'], dict) else None
            r = (c or {}).get('resolved') or c or {}
            if r.get('unsafe'):
                n += 1
                nm = r.get('path', '').rsplit('::', 1)[-1]
                ordn[nm] = ordn.get(nm, 0) + 1
                rep.ob('R-UNSAFE-SITE', '%s;%s#%d' % (f['id'], nm, ordn[nm]), nm in modelled, 'unsafe call %s in the parser must be one whose precondition is modelled as an obligation' % r.get('path'),
                       site=span_str(blk.get('tspan')))
    rep.floor('R-UNSAFE-SITE', 10)
    # the string conversions forward to from_str (so the clause extends to them)
    from ..rules import fwd
    fs = db.find_impl_fn('core::str::traits::FromStr', ['Decimal'], 'from_str')
    for src in ('&str', 'std::string::String'):
        fn = db.find_impl_fn('core::convert::TryFrom', ['Decimal', src], 'try_from')
        sh, why = fwd.shape_multi(fn) if fn else (None, 'missing')
        ok = bool(sh) and sh[-1]['callee'] == (fs or {}).get('id') and sh[-1]['ret'] == 'returned' and len(sh) <= 2
        rep.ob('R-FWD-STR', 'TryFrom<%s>' % src, ok, 'forwards to from_str: %s (%s)' % (sh, why))
    rep.assume('CONTRACT A is used by clauses (2) and (3) and is itself PROVED here, per iteration: H-SCAN-STEP - in skip_leading_zeroes, accum_exp and both loops of accum_coeff one iteration from the generalised '
               'loop state consumes exactly one byte (eight in the SWAR loop), the consumed bytes were tested to be \'0\' resp. digits, the accumulator becomes fold(10 * old + digit) resp. fold(10^8 * old + the eight digits) '
               'with the arithmetic of the body, and on return the next byte, if any, is outside the class; H-SWAR - chunk_contains_8_digits(k) is false whenever some byte of k is not an ASCII digit (25 cells by lowest '
               'non-digit byte and its class, bytes kept as lanes) and chunk_to_u64 of eight digit bytes is the number they spell. TRUSTED remainder: folding step by step equals folding the whole numeral (wrapping: '
               'arithmetic modulo 2^128; saturating: min(., 2^128-1) is absorbing), u64::from_le of an unaligned read gives the bytes in memory order.')
    rep.assume('CONTRACT A as used (statement): skip_leading_zeroes consumes the maximal prefix of \'0\' bytes; accum_coeff consumes the maximal prefix of k ASCII digits and leaves '
               '*coeff = (*coeff * 10^k + value of these digits) folded with the arithmetic its body uses (all multiply / add steps wrapping_* -> modulo 2^128, all saturating_* -> min(.., 2^128-1); read off the MIR, '
               'anything else fails the check), returning k; accum_exp likewise, exact for at most 2 digits. The SWAR digit test / conversion (chunk_contains_8_digits, chunk_to_u64) is inside this contract.')
    rep.assume('NOT decided: whether a literal with a zero coefficient and an exponent beyond 38 (99) should be accepted (it is rejected); the two trusted steps named above (step-wise fold = fold of the numeral; byte order of the unaligned little-endian read)')
    rep.explanation = ('Clauses decided: (1) no panic and no out-of-bounds read; (2) under contract A, the magnitude of the result: with D the literal\'s digits read as one number and k the number of fractional digits, '
                       'every Ok((c, e)) path of str_to_dec has c = +-D with D <= i128::MAX implied by the path and e = +-(explicit exponent) - k; every Err(InternalOverflow) path implies D > i128::MAX '
                       '(so an accumulation that overflowed is never accepted and a coefficient that fits is never rejected as overflow); the post-processing of (c, e) into a Decimal is C18\'s oracle A.10; '
                       '(3) under contract A, the grammar: bytes are one atom per position, the scanners leave a trace of their runs and promise what the byte after a run is not; on every path the input string '
                       'is reconstructed from these facts and judged by a DFA of the literal grammar written from the statement: Ok only for complete literals, with the signs of coefficient and exponent taken from '
                       'the sign bytes; Err(Invalid) only when no completion is a literal; Err(Empty) only for the empty string; an early Err(FracDigitLimitExceeded) only with an exponent of magnitude >= 100. '
                       '(1):  The three scanning helpers (skip_leading_zeroes, accum_coeff, accum_exp) are interpreted alone over slices of every '
                       'length 0..=isize::MAX with generalisation (widening with thresholds, candidate relations to unchanged values) at their loop heads: no panic edge, the preconditions of '
                       'get_unchecked(n..) (n <= len) and read_unaligned::<u64> (len >= 8) hold at all unsafe call sites, and they establish: remaining length <= initial length, returned count = '
                       'len - len\', 0 <= exp <= 10*(0x1000000-1)+9. str_to_dec and from_str are then interpreted with these summaries: every path returns (no overflow of usize / isize arithmetic, '
                       'casts in range).')
    rep.trust('rustc nightly MIR; absint incl. its loop generalisation and loop hooks; slice / pointer models (lengths; for the value / grammar / scanner clauses one atom per byte position and 8-byte reads as byte lanes); the DFA of the literal grammar; fold algebra (step by step = whole numeral)')
