"""Calling conventions of the private unsigned kernels, found by PROBING rather than fixed.

The lemmas U about the four unsigned 256-bit kernels (and the summaries the signed wrappers are analysed with) speak about the
mathematical inputs (xh, xl, y) and outputs (qh, ql, r) of a division kernel resp. (x, y) -> (hi, lo) of the multiplication.  How a
private function passes them - `&mut` in/out words and a returned remainder, by-value words and a returned triple, another
parameter order - is an implementation detail a refactoring may change.  The convention is therefore read off the function itself:
its MIR is interpreted on one concrete probe (distinct words) for every assignment of the roles to its parameters that the types
allow; exactly one assignment must reproduce the quotient words and the remainder of the probe, and the places where they show up
(a `&mut` argument after the call, the return value, a field of a returned tuple) are the output slots.  Fail closed otherwise.
"""
import itertools

from .absint import Interp, Opts, Agg, Int, K, ByRef, INT_RANGES
from .poly import pconst

TWO128 = 2 ** 128
_CACHE = {}


class Conv:
    """kind 'div': roles (xh, xl, y) -> (qh, ql, r);  kind 'mul': roles (x, y) -> (hi, lo)"""

    def __init__(self, kind, fn, in_pos, by_ref, out_slots):
        self.kind, self.fn = kind, fn
        self.in_pos = in_pos          # role index -> argument position (0-based)
        self.by_ref = by_ref          # argument position -> bool
        self.out_slots = out_slots    # per output role: ('arg', position) | ('ret',) | ('retfield', j)
        self.ret_arity = None
        rt = fn['locals'][0]
        if rt.startswith('('):
            self.ret_arity = rt.count(',') + 1

    # ---------------------------------------------------------------- roots (specification cells)
    def build_args(self, *roles):
        args = [None] * len(self.in_pos)
        for r, pos in enumerate(self.in_pos):
            args[pos] = ByRef(roles[r]) if self.by_ref[pos] else roles[r]
        return args

    def read_outputs(self, o):
        """the output roles of a returning outcome of a root call made with build_args (None if a slot does not hold an integer)"""
        res = []
        for slot in self.out_slots:
            if slot[0] == 'arg':
                v = o.state.frames[0].L.get(100 + slot[1])
            elif slot[0] == 'ret':
                v = o.value
            else:
                v = o.value.fields[slot[1]] if isinstance(o.value, Agg) and len(o.value.fields) > slot[1] else None
            if not isinstance(v, Int):
                return None
            res.append(v)
        return res

    # ---------------------------------------------------------------- summaries (call sites)
    def summ_inputs(self, I, st, args):
        from .models import deref
        return [deref(I, st, args[pos]) if self.by_ref[pos] else args[pos] for pos in self.in_pos]

    def summ_finish(self, I, st, args, outs):
        """store the output roles where this function delivers them; returns the call's value"""
        from .absint import UNIT
        ret = None
        fields = {}
        for slot, val in zip(self.out_slots, outs):
            if slot[0] == 'arg':
                ref = args[slot[1]]
                tf = I.frame_of(st, ref.frame)
                tf.L[ref.local] = I.updated(st, tf, tf.L.get(ref.local), list(ref.proj), val)
            elif slot[0] == 'ret':
                ret = val
            else:
                fields[slot[1]] = val
        if fields:
            n = self.ret_arity or (max(fields) + 1)
            if sorted(fields) != list(range(n)):
                from .absint import Stop
                raise Stop('summary: returned tuple of %s has components that are no output of the lemma' % self.fn['id'])
            return Agg('tuple', None, tuple(fields[j] for j in range(n)))
        return ret if ret is not None else UNIT


def _concrete(db, fn, args):
    # probes are not part of any proof: the R-PROFILE collectors of C20 must not see them (a wrong role assignment violates preconditions)
    saved = (Interp.PD_EXEC, Interp.PD_FAIL)
    Interp.PD_EXEC = Interp.PD_FAIL = None
    try:
        I = Interp(db, Opts(max_paths=8))
        I.MAX_UNROLL = 10 ** 6
        st = I.new_state()
        I.call_root(st, fn, args)
        try:
            outs = I.explore(st)
        except Exception:
            return None
    finally:
        Interp.PD_EXEC, Interp.PD_FAIL = saved
    if len(outs) != 1 or outs[0].kind != 'ret':
        return None
    return outs[0]


def _point(s, v):
    if isinstance(v, Int):
        lo, hi = s.itv(v)
        if lo == hi:
            return lo
    return None


def _observe(o, nargs, by_ref):
    """all integer values observable after the call: {slot: value}"""
    obs = {}
    for pos in range(nargs):
        if by_ref[pos]:
            v = _point(o.state, o.state.frames[0].L.get(100 + pos))
            if v is not None:
                obs[('arg', pos)] = v
    if isinstance(o.value, Int):
        v = _point(o.state, o.value)
        if v is not None:
            obs[('ret',)] = v
    elif isinstance(o.value, Agg) and o.value.kind == 'tuple':
        for j, f in enumerate(o.value.fields):
            v = _point(o.state, f)
            if v is not None:
                obs[('retfield', j)] = v
    return obs


def _types(fn):
    tys = fn['locals'][1:fn['arg_count'] + 1]
    by_ref = [t.startswith('&mut ') for t in tys]
    base = [t[5:] if t.startswith('&mut ') else t for t in tys]
    return tys, by_ref, base


def resolve(db, fn, kind, probes):
    """probes: list of (inputs tuple, expected outputs tuple); the first probe decides, the others must agree"""
    key = (id(db), fn['id'], kind)
    if key in _CACHE:
        return _CACHE[key]
    tys, by_ref, base = _types(fn)
    nin = len(probes[0][0])
    if len(tys) != nin or any(b not in INT_RANGES for b in base):
        raise SystemExit('fpsa: %s: cannot read the calling convention of %s%s (fail closed)' % (kind, fn['id'], tuple(tys)))
    found = []
    for perm in itertools.permutations(range(nin)):
        # perm[role] = argument position
        good = None
        for ins, outs in probes:
            if any(not (INT_RANGES[base[perm[r]]][0] <= ins[r] <= INT_RANGES[base[perm[r]]][1]) for r in range(nin)):
                good = None
                break
            args = [None] * nin
            for r in range(nin):
                kv = K(ins[r], base[perm[r]])
                args[perm[r]] = ByRef(kv) if by_ref[perm[r]] else kv
            o = _concrete(db, fn, args)
            if o is None:
                good = None
                break
            obs = _observe(o, nin, by_ref)
            slots = []
            for want in outs:
                c = [s for s, v in obs.items() if v == want]
                if len(c) != 1:
                    slots = None
                    break
                slots.append(c[0])
            if slots is None or len(set(slots)) != len(slots):
                good = None
                break
            if good is None:
                good = slots
            elif good != slots:
                good = None
                break
        if good is not None:
            found.append((perm, good))
    if len(found) != 1:
        raise SystemExit('fpsa: %s: the calling convention of %s%s -> %s is not determined by the probe (%d candidates) (fail closed)'
                         % (kind, fn['id'], tuple(tys), fn['locals'][0], len(found)))
    perm, slots = found[0]
    c = Conv(kind, fn, list(perm), by_ref, slots)
    _CACHE[key] = c
    return c


def _div_probe(xh, xl, y):
    W = xh * TWO128 + xl
    Q, r = divmod(W, y)
    outs = (Q >> 128, Q & (TWO128 - 1), r)
    assert len(set(outs)) == 3 and not set(outs) & {xh, xl, y}, 'probe values must be pairwise distinct'
    return (xh, xl, y), outs


def div_conv(db, fn, role):
    """convention of a division kernel; role in ('DIV', 'DIV64', 'SPECIAL') selects probes inside its precondition"""
    if role == 'DIV64':
        probes = [_div_probe(2 ** 70 + 3, 2 ** 100 + 99, 2 ** 63 + 5), _div_probe(2 ** 64 + 3, 2 ** 65 + 1, 12345)]
    elif role == 'SPECIAL':
        # precondition xh < y and y >= 2^64 (the dispatch sends smaller divisors to the short division)
        probes = [_div_probe(2 ** 90 + 7, 2 ** 100 + 99, 2 ** 127 + 12345), _div_probe(1, 2, 2 ** 64 + 1)]
    else:
        probes = [_div_probe(2 ** 127 + 9, 2 ** 100 + 99, 2 ** 100 + 12345), _div_probe(2 ** 70 + 3, 2 ** 100 + 99, 2 ** 63 + 5)]
    # the quotient's high word is zero in the SPECIAL probes: make the three expected values pairwise distinct anyway (0, ql, r)
    return resolve(db, fn, role, probes)


def mul_conv(db, fn):
    def pr(x, y):
        return (x, y), ((x * y) >> 128, (x * y) & (TWO128 - 1))
    # the product does not tell x from y: both role assignments reproduce it, so the roles are fixed to the parameter order here
    key = (id(db), fn['id'], 'MUL')
    if key in _CACHE:
        return _CACHE[key]
    tys, by_ref, base = _types(fn)
    if len(tys) != 2 or any(by_ref) or any(b != 'u128' for b in base):
        raise SystemExit('fpsa: MUL: cannot read the calling convention of %s%s (fail closed)' % (fn['id'], tuple(tys)))
    (ins, outs) = pr(2 ** 100 + 7, 2 ** 90 + 11)
    o = _concrete(db, fn, [K(ins[0], 'u128'), K(ins[1], 'u128')])
    obs = _observe(o, 2, by_ref) if o is not None else {}
    slots = []
    for want in outs:
        c = [s for s, v in obs.items() if v == want]
        if len(c) != 1:
            raise SystemExit('fpsa: MUL: the calling convention of %s is not determined by the probe (fail closed)' % fn['id'])
        slots.append(c[0])
    c = Conv('mul', fn, [0, 1], by_ref, slots)
    _CACHE[key] = c
    return c
