"""absint: abstract interpreter for the integer-only MIR of fpdec.

Domain: interval x congruence x polynomial term over interned atoms, plus a
per-path fact store (known signs of canonical polynomial forms, equalities
turned into substitutions).  Exploration is path-partitioned: where a branch,
an overflow flag or a modelled callee is undecided the path forks and each
side records the assumed fact.  Interprocedural analysis is by inlining along
the (acyclic) call graph; selected functions are replaced by proved summaries.
Nothing is executed and no solver is involved: every decision is a domain
operation (interval evaluation, fact lookup, congruence arithmetic).
"""
import re
from .db import INT_RANGES, norm_path, strip_lt
from .poly import (Atoms, padd, patom, pcanon, pconst, pfreeze, pis_const, plinear_single, pmul, pneg, pscale,
                   pthaw, patoms)

M127 = 2**127 - 1
ALL = frozenset((-1, 0, 1))
NEG = frozenset((-1,))
ZERO = frozenset((0,))
POS = frozenset((1,))
NONNEG = frozenset((0, 1))
NONPOS = frozenset((-1, 0))
NONZERO = frozenset((-1, 1))


class Stop(Exception):
    """analysis gives up on this path (unknown construct / limit); fail closed"""


class Infeasible(Exception):
    """the current path is contradictory"""


class Fork(Exception):
    def __init__(self, n):
        self.n = n


class PanicExc(Exception):
    def __init__(self, kind, info=None, site=None, profile_dependent=False):
        self.kind, self.info, self.site, self.profile_dependent = kind, info, site, profile_dependent


# ----------------------------------------------------------------------------- values
class Int:
    __slots__ = ('ty', 'lo', 'hi', 'p', 'cond')

    def __init__(self, ty, lo, hi, p, cond=None):
        self.ty, self.lo, self.hi, self.p, self.cond = ty, lo, hi, p, cond

    def __repr__(self):
        return 'Int(%s,[%s,%s])' % (self.ty, self.lo, self.hi)


class Lanes:
    """an unsigned word kept as its bytes (least significant first), for SWAR code: each lane is an Int in [0, 255]"""
    __slots__ = ('ty', 'lanes')

    def __init__(self, ty, lanes):
        self.ty, self.lanes = ty, tuple(lanes)

    def __repr__(self):
        return 'Lanes(%s,%d)' % (self.ty, len(self.lanes))


class Agg:
    """struct / tuple / enum variant / array / closure value (immutable)"""
    __slots__ = ('kind', 'variant', 'fields')

    def __init__(self, kind, variant, fields):
        self.kind, self.variant, self.fields = kind, variant, tuple(fields)

    def __repr__(self):
        return 'Agg(%s#%s%s)' % (self.kind, self.variant, list(self.fields))

    def with_field(self, i, v):
        f = list(self.fields)
        while len(f) <= i:
            f.append(UNINIT)
        f[i] = v
        return Agg(self.kind, self.variant, f)


class Ref:
    __slots__ = ('frame', 'local', 'proj')

    def __init__(self, frame, local, proj=()):
        self.frame, self.local, self.proj = frame, local, tuple(proj)

    def __repr__(self):
        return 'Ref(%s,%s,%s)' % (self.frame, self.local, list(self.proj))


class Opaque:
    __slots__ = ('ty', 'tag')

    def __init__(self, ty, tag=''):
        self.ty, self.tag = ty, tag

    def __repr__(self):
        return 'Opaque(%s %s)' % (self.ty, self.tag)


class FnVal:
    __slots__ = ('c',)

    def __init__(self, c):
        self.c = c

    def __repr__(self):
        return 'FnVal(%s)' % (self.c.get('path'),)


class SliceVal:
    """abstract &[u8] / &str: only the length is tracked (an Int of type usize)"""
    __slots__ = ('len', 'tag', 'tail')

    def __init__(self, length, tag='', tail=None):
        self.len, self.tag = length, tag
        self.tail = tail        # polynomial: number of bytes of the underlying string behind this slice's end (None = 0: a suffix slice)

    def pos(self, k=0):
        """position (remaining length of the underlying string) of element k"""
        p = padd(self.len.p, pconst(k), -1)
        return padd(p, self.tail) if self.tail else p

    def __repr__(self):
        return 'Slice(len=%r)' % (self.len,)


class _Uninit:
    def __repr__(self):
        return 'UNINIT'


UNINIT = _Uninit()
UNIT = Agg('tuple', None, ())

OPTION = 'core::option::Option'
RESULT = 'core::result::Result'
ORDERING = 'core::cmp::Ordering'
CONTROLFLOW = 'core::ops::control_flow::ControlFlow'


def none():
    return Agg(OPTION, 0, ())


def some(v):
    return Agg(OPTION, 1, (v,))


def K(c, ty='i128'):
    return Int(ty, c, c, pconst(c))


def is_int_ty(ty):
    return ty in INT_RANGES


# ----------------------------------------------------------------------------- frames / state
class Frame:
    __slots__ = ('fn', 'body', 'L', 'bb', 'si', 'dest', 'target', 'gsubst', 'is_promoted', 'on_return', 'loops', 'arrived', 'pending')

    def __init__(self, fn, body, L, dest=None, target=None, gsubst=None):
        self.fn, self.body, self.L, self.bb, self.si = fn, body, L, 0, 0
        self.dest, self.target, self.gsubst = dest, target, gsubst or {}
        self.on_return = None
        self.loops = {}         # loop head bb -> record (visits, snapshot / generalised snapshot)
        self.arrived = False
        self.pending = None     # continuation of a modelled callee that called a closure: (k(I, st, fr) -> value | CALL_PUSHED, dest, target)

    def clone(self):
        f = Frame(self.fn, self.body, dict(self.L), self.dest, self.target, self.gsubst)
        f.bb, f.si, f.on_return = self.bb, self.si, self.on_return
        f.loops = dict(self.loops)
        f.arrived = self.arrived
        f.pending = self.pending
        return f


class State:
    """One abstract path: call stack + relational facts.

    Facts are kept as integer intervals (plus excluded points) of *forms*: a form is the
    primitive non-constant part q of a polynomial p = G*q + c (leading coefficient positive).
    Every sign fact about p is a bound on q, so facts about p + k for different constants k
    share one entry.  Atoms are forms too (`bounds`).  Equalities become substitutions.
    """

    def __init__(self, atoms):
        self.atoms = atoms
        self.frames = []
        self.pframes = {}       # promoted / static frames: key -> Frame
        self.bounds = {}        # atom -> (lo, hi)
        self.forms = {}         # canonical frozen form -> (lo, hi, frozenset(excluded))
        self.cong = {}          # atom -> (m, r)
        self.subst = {}         # atom -> poly
        self.modrep = {}        # atom (result of a wrapping operation) -> (frozen poly P, modulus): atom = P (mod modulus)
        self.tactics = None     # opt-in non-linear tactics (set by a spec): {'mult': [positive atoms], 'relb': [polys]}
        self.notes = []         # provenance: tuples
        self.choices = []
        self.cptr = 0
        self.journal = None
        self.steps = 0
        self.decomp_depth = 1   # depth of the form decomposition p = k*f + rest in range_of
        self.ghost = {}         # specification-level bindings (e.g. loop-invariant hooks)

    def clone(self):
        s = State(self.atoms)
        s.decomp_depth = self.decomp_depth
        s.ghost = dict(self.ghost)
        s.frames = [f.clone() for f in self.frames]
        s.pframes = {k: f.clone() for k, f in self.pframes.items()}
        s.bounds = dict(self.bounds)
        s.forms = dict(self.forms)
        s.cong = dict(self.cong)
        s.subst = dict(self.subst)
        s.modrep = dict(self.modrep)
        s.tactics = self.tactics
        s.notes = list(self.notes)
        s.choices = list(self.choices)
        s.cptr = 0
        s.steps = self.steps
        return s

    # ------------------------------------------------------------ journal (undo within one statement)
    def begin(self):
        self.journal = []
        self.cptr = 0

    def _jset(self, dname, key, val):
        d = getattr(self, dname)
        if self.journal is not None:
            self.journal.append((dname, key, d.get(key, _MISSING)))
        d[key] = val

    def _jdel(self, dname, key):
        d = getattr(self, dname)
        if key in d:
            if self.journal is not None:
                self.journal.append((dname, key, d[key]))
            del d[key]

    def rollback(self):
        for dname, key, old in reversed(self.journal or []):
            if dname == 'notes':
                del self.notes[key:]
                continue
            d = getattr(self, dname)
            if old is _MISSING:
                d.pop(key, None)
            else:
                d[key] = old
        self.journal = []

    def note(self, n):
        if self.journal is not None:
            self.journal.append(('notes', len(self.notes), None))
        self.notes.append(n)

    def commit(self):
        self.choices = []
        self.cptr = 0
        self.journal = None

    def choose(self, n):
        """positional choice point within the current statement"""
        if n <= 1:
            return 0
        if self.cptr < len(self.choices):
            k = self.choices[self.cptr]
            self.cptr += 1
            return k
        raise Fork(n)

    # ------------------------------------------------------------ atoms
    def sym(self, name, lo, hi, ty='i128', cong=None):
        if lo == hi:
            return Int(ty, lo, hi, pconst(lo))
        a = self.atoms.get(('sym', name))
        self.bounds[a] = (lo, hi)
        if cong:
            self.cong[a] = cong
        return Int(ty, lo, hi, patom(a))

    def fresh(self, ty, lo=None, hi=None, tag='v'):
        rlo, rhi = INT_RANGES[ty]
        lo = rlo if lo is None else max(lo, rlo)
        hi = rhi if hi is None else min(hi, rhi)
        if lo > hi:
            raise Infeasible()
        if lo == hi:
            return Int(ty, lo, hi, pconst(lo))
        a = self.atoms.fresh(tag)
        self._jset('bounds', a, (lo, hi))
        return Int(ty, lo, hi, patom(a))

    # ------------------------------------------------------------ polynomial reasoning
    def norm(self, p):
        if not self.subst:
            return p
        for _ in range(60):
            hit = None
            for m in p:
                for a in m:
                    if a in self.subst:
                        hit = a
                        break
                if hit is not None:
                    break
            if hit is None:
                return p
            rep = self.subst[hit]
            r = {}
            for m, c in p.items():
                if hit in m:
                    rest = list(m)
                    term = {(): c}
                    while hit in rest:
                        rest.remove(hit)
                        term = pmul(term, rep)
                    if rest:
                        term = pmul(term, {tuple(rest): 1})
                    r = padd(r, term)
                else:
                    r = padd(r, {m: c})
            p = r
        return p

    def atom_itv(self, a):
        b = self.bounds.get(a)
        if b is None:
            return (None, None)
        return b

    def itv_poly(self, p):
        """interval of a polynomial from the atom bounds only (None = unbounded)"""
        lo = hi = 0
        for m, c in p.items():
            mlo, mhi = 1, 1
            for a in m:
                alo, ahi = self.atom_itv(a)
                if alo is None or ahi is None:
                    return (None, None)
                cands = (mlo * alo, mlo * ahi, mhi * alo, mhi * ahi)
                mlo, mhi = min(cands), max(cands)
            if c >= 0:
                lo += c * mlo
                hi += c * mhi
            else:
                lo += c * mhi
                hi += c * mlo
        return (lo, hi)

    @staticmethod
    def decompose(p):
        """p (non-constant) = G*q + c with q primitive, non-constant, leading coefficient positive: (qkey, q, G, c)"""
        from math import gcd
        c = p.get((), 0)
        items = sorted((m, v) for m, v in p.items() if m != ())
        g = 0
        for _, v in items:
            g = gcd(g, abs(v))
        if items[0][1] < 0:
            g = -g
        q = {m: v // g for m, v in items}
        return tuple(sorted(q.items())), q, g, c

    def form_itv(self, qkey, q):
        lo, hi = self.itv_poly(q)
        f = self.forms.get(qkey)
        excl = frozenset()
        if f is not None:
            flo, fhi, excl = f
            if flo is not None:
                lo = flo if lo is None else max(lo, flo)
            if fhi is not None:
                hi = fhi if hi is None else min(hi, fhi)
        if lo is not None and hi is not None and lo > hi:
            raise Infeasible()
        return lo, hi, excl

    def range_of(self, p, depth=0):
        """(lo, hi) of polynomial p using atom bounds and form facts (None = unbounded)"""
        p = self.norm(p)
        c = pis_const(p)
        if c is not None:
            return c, c
        qkey, q, G, c = self.decompose(p)
        lo, hi, _ = self.form_itv(qkey, q)
        if G > 0:
            lo, hi = (None if lo is None else G * lo + c), (None if hi is None else G * hi + c)
        else:
            lo, hi = (None if hi is None else G * hi + c), (None if lo is None else G * lo + c)
        if depth < self.decomp_depth and self.forms:
            # one-step decomposition p = k*f + rest over the recorded forms f (tightens sums of a bounded form and bounded atoms)
            for fkey, (flo, fhi, _ex) in list(self.forms.items()):
                if len(fkey) < 2:
                    continue
                k = None
                for m0, v0 in fkey:
                    pv = p.get(m0)
                    if pv is not None and pv % v0 == 0:
                        k = pv // v0
                        break
                if k is None:
                    continue
                rest = padd(p, dict(fkey), -k)
                if len(rest) > len(p) and len(rest) > 2:
                    continue
                rlo, rhi = self.range_of(rest, depth + 1)
                a, b = (flo, fhi) if k > 0 else (fhi, flo)
                klo = None if a is None else k * a
                khi = None if b is None else k * b
                if klo is not None and rlo is not None:
                    lo = klo + rlo if lo is None else max(lo, klo + rlo)
                if khi is not None and rhi is not None:
                    hi = khi + rhi if hi is None else min(hi, khi + rhi)
        return lo, hi

    def itv(self, v):
        lo, hi = v.lo, v.hi
        plo, phi = self.range_of(v.p)
        if plo is not None:
            lo = max(lo, plo)
        if phi is not None:
            hi = min(hi, phi)
        if lo > hi:
            raise Infeasible()
        return lo, hi

    def sign(self, p):
        """set of possible signs of polynomial p on this path"""
        p = self.norm(p)
        c = pis_const(p)
        if c is not None:
            return frozenset(((c > 0) - (c < 0),))
        qkey, q, G, c = self.decompose(p)
        _lo, _hi, excl = self.form_itv(qkey, q)
        plo, phi = self.range_of(p)
        s = set()
        if plo is None or plo < 0:
            s.add(-1)
        if (plo is None or plo <= 0) and (phi is None or phi >= 0):
            s.add(0)
        if phi is None or phi > 0:
            s.add(1)
        if 0 in s and len(s) > 1:
            # p == 0  <=>  q == -c/G
            if (-c) % G != 0 or ((-c) // G) in excl:
                s.discard(0)
            else:
                m, r = self.cong_poly(p)
                if (m > 1 and r % m != 0) or (m == 0 and r != 0):
                    s.discard(0)
        if len(s) > 1 and self.tactics and self.tactics.get('lp'):
            llo, lhi = self.lp_range(p, need_lo=1 if -1 in s else None, need_hi=-1 if 1 in s else None)
            if llo is not None:
                if llo >= 0:
                    s.discard(-1)
                if llo >= 1:
                    s.discard(0)
            if lhi is not None:
                if lhi <= 0:
                    s.discard(1)
                if lhi <= -1:
                    s.discard(0)
        if not s:
            raise Infeasible()
        return frozenset(s)

    def assume(self, p, signs):
        """add the fact sign(p) in signs; raises Infeasible on contradiction"""
        p = self.norm(p)
        cur = self.sign(p)
        new = cur & frozenset(signs)
        if not new:
            raise Infeasible()
        if new == cur:
            return
        if pis_const(p) is not None:
            return
        qkey, q, G, c = self.decompose(p)
        lo = hi = None
        excl = ()

        def cdiv(x, y):
            return -((-x) // y)
        # bounds on p:  p >= tlo, p <= thi
        tlo = thi = None
        if new <= POS:
            tlo = 1
        elif new <= NONNEG:
            tlo = 0
        if new <= NEG:
            thi = -1
        elif new <= NONPOS:
            thi = 0
        if tlo is not None:
            # G*q >= tlo - c
            if G > 0:
                lo = cdiv(tlo - c, G)
            else:
                hi = (tlo - c) // G
        if thi is not None:
            if G > 0:
                b = (thi - c) // G
                hi = b if hi is None else min(hi, b)
            else:
                b = cdiv(thi - c, G)
                lo = b if lo is None else max(lo, b)
        if 0 not in new and (-c) % G == 0:
            excl = ((-c) // G,)
        self.constrain(qkey, q, lo, hi, excl)

    def constrain(self, qkey, q, lo, hi, excl=()):
        """intersect the recorded interval of form q with [lo, hi] and add excluded points"""
        clo, chi, cex = self.form_itv(qkey, q)
        nlo = clo if lo is None else (lo if clo is None else max(lo, clo))
        nhi = chi if hi is None else (hi if chi is None else min(hi, chi))
        nex = frozenset(cex) | frozenset(excl)
        # shave excluded end points
        changed = True
        while changed and nlo is not None and nhi is not None:
            changed = False
            if nlo in nex:
                nlo += 1
                changed = True
            if nhi in nex:
                nhi -= 1
                changed = True
            if nlo > nhi:
                raise Infeasible()
        if nlo is not None and nhi is not None and nlo > nhi:
            raise Infeasible()
        nex = frozenset(e for e in nex if (nlo is None or e > nlo) and (nhi is None or e < nhi))
        old = self.forms.get(qkey)
        single = len(q) == 1 and len(next(iter(q))) == 1
        if old != (nlo, nhi, nex) and not (old is None and (nlo, nhi) == (clo, chi) and not nex and not single):
            self._jset('forms', qkey, (nlo, nhi, nex))
        if single:
            a = next(iter(q))[0]
            if nlo is not None and nhi is not None and self.bounds.get(a) != (nlo, nhi):
                self._jset('bounds', a, (nlo, nhi))
        if nlo is not None and nlo == nhi:
            self._add_equality(padd(q, pconst(nlo), -1))
        elif not single and (nlo, nhi) != (clo, chi) and 2 <= len(q) <= 10 and all(len(m_) == 1 for m_ in q):
            self._propagate_linear(q, nlo, nhi)

    def _propagate_linear(self, q, lo, hi):
        """bound propagation for a linear form lo <= sum c_i x_i <= hi: each atom's bound from the others' (one round)"""
        items = []
        for m_, c in q.items():
            b = self.bounds.get(m_[0])
            if b is None:
                return
            items.append((m_[0], c, b[0], b[1]))
        tmin = sum(c * (l if c > 0 else h) for _, c, l, h in items)
        tmax = sum(c * (h if c > 0 else l) for _, c, l, h in items)
        for a, c, l, h in items:
            omin = tmin - c * (l if c > 0 else h)
            omax = tmax - c * (h if c > 0 else l)
            nl, nh = l, h
            # c*x <= hi - omin ; c*x >= lo - omax
            if hi is not None:
                if c > 0:
                    nh = min(nh, (hi - omin) // c)
                else:
                    nl = max(nl, -((hi - omin) // -c))
            if lo is not None:
                if c > 0:
                    nl = max(nl, -((-(lo - omax)) // c))
                else:
                    nh = min(nh, (lo - omax) // c)
            if nl > nh:
                raise Infeasible()
            if (nl, nh) != (l, h) and a not in self.subst:
                self.constrain((((a,), 1),), {(a,): 1}, nl, nh)

    def _add_equality(self, p):
        """p == 0: eliminate the oldest atom that occurs with unit coefficient in a linear monomial only"""
        best = None
        for m, c in p.items():
            if len(m) == 1 and abs(c) == 1:
                a = m[0]
                if a in self.subst:
                    continue
                if any(a in m2 for m2 in p if m2 != m):
                    continue
                if best is None or a < best[0]:
                    best = (a, c)
        if best is None:
            return
        a, c = best
        rest = {m: v for m, v in p.items() if m != (a,)}
        rep = pscale(rest, -c)     # c*a + rest = 0  ->  a = -rest/c
        ab = self.bounds.get(a)
        self._jset('subst', a, rep)
        # re-key the facts that mention the eliminated atom
        for key in [k for k in self.forms if any(a in m for m, _ in k)]:
            if key not in self.forms:
                continue        # already re-keyed by a nested equality
            lo, hi, ex = self.forms[key]
            self._jdel('forms', key)
            np_ = self.norm(dict(key))
            cc = pis_const(np_)
            if cc is not None:
                if (lo is not None and cc < lo) or (hi is not None and cc > hi) or cc in ex:
                    raise Infeasible()
                continue
            qk2, q2, G2, c2 = self.decompose(np_)
            # old form value = G2*q2 + c2 in [lo, hi]
            self._constrain_affine(qk2, q2, G2, c2, lo, hi, ex)
            if self.tactics and self.tactics.get('lp') and len(np_) > 1:
                # does the re-keyed fact contradict the other facts?
                llo, lhi = self.lp_range(np_, need_lo=None if hi is None else hi + 1, need_hi=None if lo is None else lo - 1)
                if (llo is not None and hi is not None and llo > hi) or (lhi is not None and lo is not None and lhi < lo):
                    raise Infeasible()
        # the replaced atom's own bounds now constrain the replacement
        if ab is not None:
            cc = pis_const(self.norm(rep))
            if cc is not None:
                if cc < ab[0] or cc > ab[1]:
                    raise Infeasible()
            else:
                qk2, q2, G2, c2 = self.decompose(self.norm(rep))
                self._constrain_affine(qk2, q2, G2, c2, ab[0], ab[1], ())

    def _constrain_affine(self, qkey, q, G, c, lo, hi, ex):
        """G*q + c in [lo, hi], G*q + c not in ex"""
        def cdiv(x, y):
            return -((-x) // y)
        nlo = nhi = None
        if G > 0:
            if lo is not None:
                nlo = cdiv(lo - c, G)
            if hi is not None:
                nhi = (hi - c) // G
        else:
            if lo is not None:
                nhi = (lo - c) // G
            if hi is not None:
                nlo = cdiv(hi - c, G)
        nex = [(e - c) // G for e in ex if (e - c) % G == 0]
        self.constrain(qkey, q, nlo, nhi, nex)

    def cong_poly(self, p):
        """(m, r): value = r (mod m); m == 0 means the exact constant r, m == 1 no information"""
        from math import gcd
        m_acc, r_acc = 0, 0
        for mono, c in p.items():
            if mono == ():
                continue
            if len(mono) == 1:
                am, ar = self.cong.get(mono[0], (1, 0))
            else:
                am, ar = 1, 0
            if am == 0:
                r_acc += c * ar
            else:
                m_acc = gcd(m_acc, abs(c) * am)
                r_acc += c * ar
        r_acc += p.get((), 0)
        if m_acc == 0:
            return 0, r_acc
        return m_acc, r_acc % m_acc

    def decide(self, p, parts):
        """index of the part (list of sign sets covering {-1,0,1}) that sign(p) falls into; forks if undecided"""
        s = self.sign(p)
        cands = [i for i, part in enumerate(parts) if s & part]
        if not cands:
            raise Infeasible()
        if len(cands) == 1:
            return cands[0]
        k = self.choose(len(cands))
        idx = cands[k]
        self.assume(p, parts[idx])
        if self.tactics:
            self.saturate(p, parts[idx])
        return idx

    # ------------------------------------------------------------ opt-in tactics for products of unknowns (sound inferences, enabled by a spec)
    def multipliers(self):
        return [a for a in self.tactics.get('mult', ()) if a not in self.subst and (self.bounds.get(a) or (0, 0))[0] >= 1]

    def saturate(self, p, signs):
        """consequences of the branch fact sign(p) in signs with the positive multiplier atoms d:
        (T2) p linear: p >= c  =>  (p - c)*d >= 0   (likewise <=);
        (T3) p = d*L + R (d occurring to the first power): from d*L <= R' and R' < c*d conclude L < c (c in {0, 2^64}); likewise >=."""
        p = self.norm(p)
        if pis_const(p) is not None:
            return
        signs = frozenset(signs)
        lo = 1 if signs <= POS else (0 if signs <= NONNEG else None)
        hi = -1 if signs <= NEG else (0 if signs <= NONPOS else None)
        linear = all(len(m) <= 1 for m in p)
        for d in self.multipliers():
            dp = {(d,): 1}
            if linear:
                if lo is not None:
                    self.assume(pmul(padd(p, pconst(lo), -1), dp), NONNEG)
                if hi is not None:
                    self.assume(pmul(padd(pconst(hi), p, -1), dp), NONNEG)
                continue
            Lp, R0 = {}, {}
            ok = False
            for m, c in p.items():
                if d in m:
                    rest = list(m)
                    rest.remove(d)
                    if d in rest:
                        ok = False
                        break
                    Lp[tuple(rest)] = c
                    ok = True
                else:
                    R0[m] = c
            if not ok or not all(len(m) <= 1 for m in Lp):
                continue
            # p = d*Lp + R0
            for c in (0, DIGIT):
                if lo is not None:
                    # d*Lp + R0 >= lo  =>  d*(-Lp) <= R0 - lo;  R0 - lo < c*d  =>  -Lp < c
                    if self.sign(padd(padd(R0, pconst(lo), -1), pscale(dp, c), -1)) <= NEG:
                        self.assume(padd(pneg(Lp), pconst(c), -1), NEG)
                        break
                if hi is not None:
                    # d*Lp + R0 <= hi  =>  d*Lp <= hi - R0;  hi - R0 < c*d  =>  Lp < c
                    if self.sign(padd(padd(pconst(hi), R0, -1), pscale(dp, c), -1)) <= NEG:
                        self.assume(padd(Lp, pconst(c), -1), NEG)
                        break

    def lp_range(self, p, need_lo=None, need_hi=None):
        """(lo, hi) of p over the polytope of the path's facts in monomial space (exact dual simplex, lp.py);
        need_lo / need_hi: stop as soon as the bound reaches that value.  None = not computed / unbounded."""
        from . import lp
        from math import floor, ceil
        p = self.norm(p)
        c0 = p.get((), 0)
        obj = {m: v for m, v in p.items() if m != ()}
        if not obj:
            return c0, c0
        V = set(obj)
        chosen = {}
        for _round in range(4):
            atoms_v = set(a for m in V for a in m)
            added = False
            for fkey, (flo, fhi, _ex) in self.forms.items():
                if fkey in chosen or len(chosen) >= 80:
                    continue
                ms = [m for m, _ in fkey]
                if len(ms) == 1 and len(ms[0]) == 1:
                    continue        # a bound of one atom: already a variable bound
                if any(m in V for m in ms) and all(all(a in atoms_v for a in m) or m in V for m in ms if len(m) > 1):
                    chosen[fkey] = (flo, fhi)
                    V.update(ms)
                    added = True
            if not added:
                break
        vb = {}
        for m in V:
            mlo, mhi = self.itv_poly({m: 1})
            if mlo is None or mhi is None:
                return None, None
            if len(m) == 1:
                f = self.forms.get(((m, 1),))
                if f is not None:
                    if f[0] is not None:
                        mlo = max(mlo, f[0])
                    if f[1] is not None:
                        mhi = min(mhi, f[1])
            vb[m] = (mlo, mhi)
        rows = [(dict(fkey), flo, fhi) for fkey, (flo, fhi) in chosen.items()]
        lo = hi = None
        try:
            if need_lo is not None:
                r = lp.lp_min(obj, vb, rows, stop_at=need_lo - c0)
                if r is not None:
                    lo = ceil(r) + c0
            if need_hi is not None:
                r = lp.lp_min({m: -v for m, v in obj.items()}, vb, rows, stop_at=c0 - need_hi)
                if r is not None:
                    hi = floor(-r) + c0
        except lp.Infeasible:
            raise Infeasible()
        return lo, hi

    def relational_upper(self, p, limit):
        """(T4) p < v for one of the spec's candidate bounds v <= limit: records the fact, returns True"""
        for v in self.tactics.get('relb', ()):
            vlo, vhi = self.range_of(v)
            if vhi is None or vhi > limit:
                continue
            if self.sign(padd(p, v, -1)) <= NEG:
                self.assume(padd(p, v, -1), NEG)
                return True
        return False

    def in_range(self, p, lo, hi):
        """True / False / None (undecided): lo <= p <= hi"""
        plo, phi = self.range_of(p)
        if plo is not None and phi is not None and lo <= plo and phi <= hi:
            return True
        if (phi is not None and phi < lo) or (plo is not None and plo > hi):
            return False
        if self.tactics and self.tactics.get('lp'):
            llo, lhi = self.lp_range(p, need_lo=lo if (plo is None or plo < lo) else None, need_hi=hi if (phi is None or phi > hi) else None)
            plo = llo if plo is None else (plo if llo is None else max(plo, llo))
            phi = lhi if phi is None else (phi if lhi is None else min(phi, lhi))
            if plo is not None and phi is not None and lo <= plo and phi <= hi:
                return True
            if (phi is not None and phi < lo) or (plo is not None and plo > hi):
                return False
        return None

    def assume_in_range(self, p, lo, hi):
        self.assume(padd(p, pconst(lo), -1), NONNEG)
        self.assume(padd(pconst(hi), p, -1), NONNEG)

    def truth(self, v):
        """decide a boolean abstract value, forking if necessary"""
        lo, hi = self.itv(v)
        if lo == hi:
            return bool(lo)
        c = v.cond
        if c is None:
            k = self.choose(2)
            self.assume(v.p, POS if k else ZERO)
            return bool(k)
        if c[0] == 'sign':
            _, p, strue = c
            idx = self.decide(p, [strue, ALL - strue])
            return idx == 0
        if c[0] == 'range':
            _, p, rlo, rhi, when_in = c
            r = self.in_range(p, rlo, rhi)
            if r is None:
                k = self.choose(2)
                if k == 0:
                    self.assume_in_range(p, rlo, rhi)
                    r = True
                else:
                    self.note(('out-of-range', pfreeze(self.norm(p)), rlo, rhi))
                    # if only one side of the range can be left, the failing branch knows which
                    plo, phi = self.range_of(p)
                    if phi is not None and phi <= rhi:
                        self.assume(padd(p, pconst(rlo), -1), NEG)
                        if self.tactics:
                            self.saturate(padd(p, pconst(rlo), -1), NEG)
                    elif plo is not None and plo >= rlo:
                        self.assume(padd(p, pconst(rhi), -1), POS)
                        if self.tactics:
                            self.saturate(padd(p, pconst(rhi), -1), POS)
                    r = False
            return r == when_in
        raise Stop('unknown cond %r' % (c,))



_MISSING = object()


# ----------------------------------------------------------------------------- outcomes
class Outcome:
    __slots__ = ('kind', 'value', 'state', 'info', 'site', 'profile_dependent')

    def __init__(self, kind, value, state, info=None, site=None, profile_dependent=False):
        self.kind, self.value, self.state, self.info, self.site = kind, value, state, info, site
        self.profile_dependent = profile_dependent

    def __repr__(self):
        return 'Outcome(%s, %r, %r)' % (self.kind, self.value, self.info)


class Opts:
    def __init__(self, summaries=None, max_paths=20000, max_steps=20000, mode=None, profile='dev', models=None,
                 track_sites=False, no_inline=()):
        self.summaries = summaries or {}
        self.max_paths = max_paths
        self.max_steps = max_steps
        self.mode = mode            # concrete thread rounding mode (variant index) or None = symbolic
        self.profile = profile
        self.track_sites = track_sites
        self.no_inline = set(no_inline)
        self.max_total_steps = 400000    # budget of one explore() call (all paths together)
        self.loop_hooks = {}         # fn id -> hook object (on_generalise / on_rearrival): specification-supplied loop invariants
        self.loop_candidates = True  # try the generic candidate relations (v <= w, v >= w) at generalised loop heads
        self.loop_delay = 0          # arrivals to pass before the base snapshot of a generalised loop is taken
        self.unroll_loops = True     # False: generalise (widen) at the 2nd arrival at a loop head instead of unrolling
        self.precision = 'sym'      # Formatter::precision(): 'sym' (fork None / unknown), None, or a concrete usize


# ----------------------------------------------------------------------------- interpreter
DIGIT = 2**64


class Interp:
    # R-PROFILE collectors (set by the C20 spec in its worker processes): executed profile-dependent check sites / failing ones
    PD_EXEC = None
    PD_FAIL = None

    def __init__(self, db, opts=None):
        self.db = db
        self.opts = opts or Opts()
        from . import models
        self.models = models
        self.total_steps = 0
        self.sites_seen = {}     # (fn id, bb, kind) -> set('pass','fail') for R-PROFILE bookkeeping

    # ------------------------------------------------------------ entry
    def new_state(self):
        return State(Atoms())

    def call_root(self, state, fn, args, gsubst=None):
        """set up a synthetic caller frame holding by-reference arguments and push the root frame.
        args: list of values; a value wrapped in ByRef is stored in the caller frame and passed as a reference."""
        caller = Frame(None, None, {}, None, None)
        state.frames.append(caller)
        L = {}
        for i, a in enumerate(args):
            if isinstance(a, ByRef):
                caller.L[100 + i] = a.v
                L[i + 1] = Ref(0, 100 + i, ())
            else:
                L[i + 1] = a
        fr = Frame(fn, fn, L, {'local': 0, 'proj': []}, None, gsubst)
        state.frames.append(fr)
        if Interp.PD_EXEC is not None:
            Interp.PD_EXEC.add((fn['id'], -1))

    def explore(self, state):
        """run all paths from the given state; returns list of Outcome"""
        work = [state]
        outs = []
        npaths = 0
        self.total_steps = 0
        while work:
            st = work.pop()
            npaths += 1
            if npaths > self.opts.max_paths or self.total_steps > self.opts.max_total_steps:
                outs.append(Outcome('unknown', None, st, info='analysis budget exhausted (%d paths, %d steps): path explosion' % (npaths, self.total_steps), site=self.cur_site(st)))
                break
            try:
                out = self.run_path(st)
                outs.append(out)
            except Fork as f:
                st.rollback()
                base = list(st.choices)
                for k in range(f.n):
                    s2 = st.clone()
                    s2.choices = base + [k]
                    work.append(s2)
            except Infeasible:
                continue
            except Stop as e:
                outs.append(Outcome('unknown', None, st, info=str(e), site=self.cur_site(st)))
        return outs

    def cur_site(self, st):
        for fr in reversed(st.frames):
            if fr.fn is not None:
                b = fr.body['blocks'][fr.bb]
                sp = None
                if fr.si < len(b['stmts']):
                    sp = b['stmts'][fr.si].get('span')
                sp = sp or b.get('tspan')
                return (fr.fn['id'], fr.bb, '%s:%s' % (sp.get('cs_file') or sp.get('file'), sp.get('cs_line') or sp.get('line')) if sp else '?')
        return None

    # ------------------------------------------------------------ path execution
    def run_path(self, st):
        while True:
            st.steps += 1
            self.total_steps += 1
            if st.steps > self.opts.max_steps:
                raise Stop('step limit')
            fr = st.frames[-1]
            if fr.pending is not None:
                saved = fr.pending
                k_, dest_, target_ = saved
                fr.pending = None
                st.begin()
                try:
                    val = k_(self, st, fr)
                except Fork:
                    fr.pending = saved
                    raise
                if val is not CALL_PUSHED:
                    self.finish_call(st, fr, dest_, target_, val)
                st.commit()
                continue
            if fr.arrived:
                fr.arrived = False
                if fr.fn is not None and fr.body is fr.fn and fr.bb in loop_heads(fr.fn):
                    self.loop_head(st, fr)
            blk = fr.body['blocks'][fr.bb]
            stmts = blk['stmts']
            if fr.si < len(stmts):
                s = stmts[fr.si]
                st.begin()
                if 'assign' in s:
                    ty = self.place_ty_hint(fr, s['assign'])
                    v = self.rvalue(st, fr, s['rv'], ty)
                    self.store(st, fr, s['assign'], v)
                elif 'setdiscr' in s:
                    raise Stop('SetDiscriminant')
                else:
                    raise Stop('statement %s' % (str(s)[:80],))
                st.commit()
                fr.si += 1
                continue
            # terminator
            st.begin()
            t = blk['term']
            try:
                res = self.terminator(st, fr, t, blk)
            except PanicExc as p:
                site = self.cur_site(st)
                if p.profile_dependent and Interp.PD_FAIL is not None:
                    root = st.frames[1].fn['id'] if len(st.frames) > 1 and st.frames[1].fn else '?'
                    Interp.PD_FAIL.append((fr.fn['id'], fr.bb, p.kind, dict(p.info or {}), site, root))
                st.journal = None
                return Outcome('panic', p.kind, st, info=p.info, site=p.site or site, profile_dependent=p.profile_dependent)
            st.commit()
            if res is not None:
                return res

    def goto(self, fr, bb):
        fr.bb = bb
        fr.si = 0
        fr.arrived = True

    def terminator(self, st, fr, t, blk):
        if t == 'return':
            val = fr.L.get(0, UNIT)
            st.frames.pop()
            if fr.on_return is not None:
                val = fr.on_return(self, st, val)
            if isinstance(val, Defer):
                caller = st.frames[-1]
                caller.pending = (val.k, fr.dest, fr.target)
                return None
            if len(st.frames) <= 1 or fr.dest is None:
                return Outcome('ret', val, st)
            caller = st.frames[-1]
            self.store(st, caller, fr.dest, val)
            self.goto(caller, fr.target)
            return None
        if t == 'unreachable':
            raise Infeasible()
        if t == 'resume':
            raise Infeasible()
        if 'goto' in t:
            self.goto(fr, t['goto'])
            return None
        if 'switch' in t:
            v = self.operand(st, fr, t['switch'])
            if not isinstance(v, Int):
                raise Stop('switch on %r' % (v,))
            dty = t.get('discr_ty', v.ty)
            arms = []
            for a, b in t['arms']:
                a = int(a)
                if dty in INT_RANGES and INT_RANGES[dty][0] < 0:
                    bits = {'i8': 8, 'i16': 16, 'i32': 32, 'i64': 64, 'i128': 128, 'isize': 64}[dty]
                    if a >= 2**(bits - 1):
                        a -= 2**bits
                arms.append((a, b))
            if dty == 'bool' or v.ty == 'bool':
                tr = st.truth(v)
                tgt = dict(arms).get(int(tr), t['otherwise'])
                self.goto(fr, tgt)
                return None
            lo, hi = st.itv(v)
            if lo == hi:
                self.goto(fr, dict(arms).get(lo, t['otherwise']))
                return None
            # fork over the arms within the interval + otherwise
            cands = [(a, b) for a, b in arms if lo <= a <= hi and 0 in st.sign(padd(v.p, pconst(a), -1))]
            armvals = set(a for a, _ in arms)
            other_possible = any(x not in armvals for x in range(lo, min(hi, lo + 512) + 1)) or hi - lo > 512
            n = len(cands) + (1 if other_possible else 0)
            k = st.choose(n)
            if k < len(cands):
                a, b = cands[k]
                st.assume(padd(v.p, pconst(a), -1), ZERO)
                self.goto(fr, b)
            else:
                for a, _ in arms:
                    if lo <= a <= hi:
                        st.assume(padd(v.p, pconst(a), -1), NONZERO)
                self.goto(fr, t['otherwise'])
            return None
        if 'assert' in t:
            v = self.operand(st, fr, t['assert'])
            tr = st.truth(v)
            kind = t['kind']
            pd = kind in ('Overflow', 'OverflowNeg') and t.get('op') not in ('Div', 'Rem')
            if pd and Interp.PD_EXEC is not None:
                Interp.PD_EXEC.add((fr.fn['id'], fr.bb))
            if self.opts.track_sites:
                key = (fr.fn['id'], fr.bb, kind, t.get('op'))
                self.sites_seen.setdefault(key, set()).add('pass' if tr == t['expected'] else 'fail')
            if tr != t['expected']:
                info = {'assert': kind, 'op': t.get('op'), 'fn': fr.fn['id']}
                if isinstance(v, Int) and v.cond is not None and v.cond[0] == 'range':
                    info['term'] = pfreeze(st.norm(v.cond[1]))
                raise PanicExc('overflow' if pd else kind, info, profile_dependent=pd)
            self.goto(fr, t['target'])
            return None
        if 'call' in t:
            return self.call(st, fr, t, blk)
        raise Stop('terminator %s' % (str(t)[:80],))

    # ------------------------------------------------------------ loops: generalisation (widening) at loop heads
    MAX_UNROLL = 24          # loops whose exit is decided by the abstract state simply unroll (scale-driven loops)
    MAX_WIDEN = 6

    def loop_head(self, st, fr):
        rec = fr.loops.get(fr.bb)
        if rec is None:
            fr.loops[fr.bb] = {'n': 1, 'snap': self.snapshot(st), 'gen': None, 'widen': 0}
            return
        rec = dict(rec)
        rec['n'] += 1
        fr.loops[fr.bb] = rec
        hook = self.opts.loop_hooks.get(fr.fn['id'])
        if rec['gen'] is None:
            if rec['n'] <= self.unroll_budget(st, fr, rec):
                return
            if rec['n'] <= 1 + self.opts.loop_delay:
                rec['snap'] = self.snapshot(st)       # base case taken later (invariants that only hold after the first rounds)
                return
            before = self.snapshot(st)
            g = self.generalise(st, rec['snap'], None)
            if hook is not None:
                hook.on_generalise(self, st, fr, rec['snap'], before, g)
            rec['gen'] = g
            rec['widen'] = 1
            return
        # already generalised: is the current state covered?
        if self.subsumed(st, rec['gen']) and (hook is None or hook.on_rearrival(self, st, fr, rec['gen'])):
            raise Infeasible()       # nothing new: this path is covered by the generalised iteration
        rec['widen'] += 1
        if rec['widen'] > self.MAX_WIDEN:
            raise Stop('loop at %s bb%d does not stabilise%s' % (fr.fn['id'], fr.bb, (': ' + st.ghost.get('hook_msg', '')) if st.ghost.get('hook_msg') else ''))
        before = self.snapshot(st)
        prev = rec['gen']
        rec['gen'] = self.generalise(st, prev['snap'], prev)
        if hook is not None:
            hook.on_generalise(self, st, fr, prev['snap'], before, rec['gen'])

    def unroll_budget(self, st, fr, rec):
        """loops are unrolled while every arrival is a *decided* continuation; a loop whose state keeps changing symbolically is generalised at the 2nd arrival"""
        return self.MAX_UNROLL if self.opts.unroll_loops else 1

    def snapshot(self, st):
        frames = [(f.fn['id'] if f.fn else None, dict(f.L)) for f in st.frames]
        top = st.frames[-1]
        if top.fn is not None and top.body is top.fn:
            lv = live_in(top.fn, top.bb)
            frames[-1] = (top.fn['id'], {k: v for k, v in top.L.items() if not isinstance(k, int) or k in lv})
        return {'frames': frames, 'pframes': {k: dict(f.L) for k, f in st.pframes.items()}}

    def generalise(self, st, snap, prev):
        """replace every value that differs between `snap` and the current state by a fresh atom with widened bounds;
        keep the candidate relations (<=, >=) to unchanged values that hold for both. Returns the record of the generalised state."""
        if len(snap['frames']) != len(st.frames) or any(a[0] != (f.fn['id'] if f.fn else None) for a, f in zip(snap['frames'], st.frames)):
            raise Stop('loop head reached with a different call stack')
        stable = []         # polys of Int values that did not change (candidates for relations)
        changed = []        # (setter, old Int, new Int)
        ctx = {'stable': stable, 'changed': changed}
        top = st.frames[-1]
        lv = live_in(top.fn, top.bb) if (top.fn is not None and top.body is top.fn) else None
        for (fid, oldL), f in zip(snap['frames'], st.frames):
            for k in list(f.L.keys()):
                if f is top and lv is not None and isinstance(k, int) and k not in lv:
                    f.L[k] = HAVOC          # dead at the loop head
                    continue
                if k in oldL:
                    f.L[k] = self.gen_value(st, oldL[k], f.L[k], ctx)
        for key, oldL in snap['pframes'].items():
            f = st.pframes.get(key)
            if f is None:
                continue
            for k in list(f.L.keys()):
                if k in oldL:
                    f.L[k] = self.gen_value(st, oldL[k], f.L[k], ctx)
        invs = []
        banned = set(prev.get('banned', ())) if prev is not None else set()
        if prev is not None:
            banned |= set(prev.get('failed', ()))       # candidates refuted by an iteration are not proposed again
        for slot, (a, old, new) in enumerate(changed if self.opts.loop_candidates else []):
            ap = patom(a)
            seen = set()
            entry = []
            try:
                if pis_const(st.norm(old.p)) is None and not (patoms(st.norm(old.p)) & set(x for x, _, _ in changed)):
                    entry = [st.norm(old.p)]        # the value at loop entry itself (monotonicity v <= v_entry / v >= v_entry)
            except Infeasible:
                entry = []
            for wi, w in enumerate(entry + stable):
                fw = pfreeze(w)
                if fw in seen:
                    continue
                seen.add(fw)
                for rel in (NONPOS, NONNEG):
                    key = (slot, 'entry' if (entry and wi == 0) else fw, rel)
                    if key in banned:
                        continue
                    try:
                        if st.sign(padd(old.p, w, -1)) <= rel and st.sign(padd(new.p, w, -1)) <= rel:
                            st.assume(padd(ap, w, -1), rel)
                            invs.append((a, w, rel, key))
                    except Infeasible:
                        pass
        atoms_ = set(a for a, _, _ in changed)
        bounds_ = {a: st.bounds.get(a) for a, _, _ in changed}
        if prev is not None:
            atoms_ |= prev['atoms']         # atoms generalised in earlier rounds stay generalised
            for a, b in prev['bounds'].items():
                bounds_.setdefault(a, b)
        return {'snap': self.snapshot(st), 'atoms': atoms_, 'invs': invs, 'bounds': bounds_, 'banned': banned, 'failed': set()}

    def gen_value(self, st, old, new, ctx):
        if isinstance(old, Int) and isinstance(new, Int):
            try:
                same = pis_const(st.norm(padd(old.p, new.p, -1))) == 0
            except Infeasible:
                same = False
            if same:
                if pis_const(st.norm(new.p)) is None:
                    ctx['stable'].append(st.norm(new.p))
                return new
            olo, ohi = st.itv(old)
            nlo, nhi = st.itv(new)
            lo = olo if nlo >= olo else widen_down(nlo, new.ty)
            hi = ohi if nhi <= ohi else widen_up(nhi, new.ty)
            a = st.atoms.fresh('loop')
            st.bounds[a] = (min(lo, nlo), max(hi, nhi))
            ctx['changed'].append((a, old, new))
            return Int(new.ty, min(lo, nlo), max(hi, nhi), patom(a), None)
        if isinstance(old, SliceVal) and isinstance(new, SliceVal):
            return SliceVal(self.gen_value(st, old.len, new.len, ctx), new.tag)
        if isinstance(old, Agg) and isinstance(new, Agg) and old.kind == new.kind and old.variant == new.variant and len(old.fields) == len(new.fields):
            return Agg(new.kind, new.variant, [self.gen_value(st, a, b, ctx) for a, b in zip(old.fields, new.fields)])
        if isinstance(old, Ref) and isinstance(new, Ref) and (old.frame, old.local, old.proj) == (new.frame, new.local, new.proj):
            return new
        if isinstance(old, Opaque) and isinstance(new, Opaque):
            return new
        if isinstance(old, FnVal) and isinstance(new, FnVal):
            return new
        if old is new:
            return new
        return HAVOC

    def subsumed(self, st, gen):
        """is the current state an instance of the generalised state `gen`?"""
        snap = gen['snap']
        if len(snap['frames']) != len(st.frames):
            return False
        binding = {}
        for (fid, gL), f in zip(snap['frames'], st.frames):
            for k, gv in gL.items():
                if k not in f.L:
                    continue
                if not self.sub_value(st, gv, f.L[k], gen, binding):
                    return False
        for key, gL in snap['pframes'].items():
            f = st.pframes.get(key)
            if f is None:
                continue
            for k, gv in gL.items():
                if k in f.L and not self.sub_value(st, gv, f.L[k], gen, binding):
                    return False
        ok = True
        for (a, w, rel, key) in gen['invs']:
            cur = binding.get(a)
            if cur is None:
                continue
            try:
                if not st.sign(padd(cur, w, -1)) <= rel:
                    gen['failed'].add(key)
                    ok = False
            except Infeasible:
                return False
        return ok

    def sub_value(self, st, gv, cv, gen, binding):
        if gv is HAVOC:
            return True
        if isinstance(gv, Int) and isinstance(cv, Int):
            ls = plinear_single(gv.p)
            if ls is not None and ls[0] in gen['atoms'] and ls[1] == 1 and ls[2] == 0:
                b = gen['bounds'].get(ls[0])
                lo, hi = st.itv(cv)
                if b is not None and (lo < b[0] or hi > b[1]):
                    return False
                binding[ls[0]] = cv.p
                return True
            try:
                return pis_const(st.norm(padd(gv.p, cv.p, -1))) == 0
            except Infeasible:
                return False
        if isinstance(gv, SliceVal) and isinstance(cv, SliceVal):
            return self.sub_value(st, gv.len, cv.len, gen, binding)
        if isinstance(gv, Agg) and isinstance(cv, Agg):
            if gv.kind != cv.kind or gv.variant != cv.variant or len(gv.fields) != len(cv.fields):
                return False
            return all(self.sub_value(st, a, b, gen, binding) for a, b in zip(gv.fields, cv.fields))
        if isinstance(gv, Ref) and isinstance(cv, Ref):
            return (gv.frame, gv.local, gv.proj) == (cv.frame, cv.local, cv.proj)
        return type(gv) is type(cv)

    # ------------------------------------------------------------ places
    def place_ty_hint(self, fr, pl):
        if not pl['proj']:
            return fr.body['locals'][pl['local']]
        return None

    def frame_of(self, st, key):
        if isinstance(key, int):
            return st.frames[key]
        return st.pframes[key]

    def load_place(self, st, fr, pl):
        v = fr.L.get(pl['local'], UNINIT)
        return self.project(st, fr, v, pl['proj'])

    def project(self, st, fr, v, proj):
        for e in proj:
            if e == 'deref':
                if isinstance(v, Ref):
                    tf = self.frame_of(st, v.frame)
                    base = tf.L.get(v.local, UNINIT)
                    v = self.project(st, tf, base, v.proj)
                elif isinstance(v, SliceVal):
                    pass        # a slice reference stands for the slice (only its length is tracked)
                else:
                    raise Stop('deref of %r' % (v,))
            elif isinstance(e, dict) and 'field' in e:
                if isinstance(v, Agg):
                    i = e['field']
                    if i >= len(v.fields):
                        raise Stop('field %d of %r' % (i, v))
                    v = v.fields[i]
                elif isinstance(v, Opaque):
                    v = Opaque('?', v.tag + '.%d' % e['field'])
                else:
                    raise Stop('field of %r' % (v,))
            elif isinstance(e, dict) and 'downcast' in e:
                if isinstance(v, Agg) and v.variant is not None and v.variant != e['downcast']:
                    raise Infeasible()
            elif isinstance(e, dict) and 'index' in e:
                idx = fr.L.get(e['index'])
                if not isinstance(idx, Int):
                    raise Stop('index %r' % (idx,))
                lo, hi = st.itv(idx)
                if lo != hi:
                    if isinstance(v, Agg) and v.kind == 'array' and 0 <= lo and hi < len(v.fields) and all(isinstance(e_, Int) for e_ in v.fields[lo:hi + 1]):
                        els = v.fields[lo:hi + 1]
                        v = st.fresh(els[0].ty, min(e_.lo for e_ in els), max(e_.hi for e_ in els), 'elem')
                        continue
                    raise Stop('symbolic index [%s,%s]' % (lo, hi))
                if isinstance(v, Agg) and lo < len(v.fields):
                    v = v.fields[lo]
                else:
                    raise Stop('index into %r' % (v,))
            elif isinstance(e, dict) and 'cindex' in e:
                if isinstance(v, Agg):
                    v = v.fields[e['cindex']]
                elif isinstance(v, SliceVal):
                    if getattr(self.opts, 'byte_positions', False) and not e.get('from_end'):
                        from .models import byte_at, deref as _deref
                        v = _deref(self, st, byte_at(self, st, self.mk(st, 'usize', v.pos(e['cindex']), 0, None)))
                    else:
                        v = st.fresh('u8', 0, 255, 'byte')      # content of a slice of unknown bytes (the bounds check is a separate assert)
                else:
                    raise Stop('cindex into %r' % (v,))
            else:
                raise Stop('projection %r' % (e,))
        return v

    def store(self, st, fr, pl, val):
        proj = pl['proj']
        if not proj:
            fr.L[pl['local']] = val
            return
        base = fr.L.get(pl['local'], UNINIT)
        fr.L[pl['local']] = self.updated(st, fr, base, proj, val)

    def updated(self, st, fr, base, proj, val):
        """functional update of `base` along `proj`; writes through references into their target frames"""
        if not proj:
            return val
        e = proj[0]
        if e == 'deref':
            if not isinstance(base, Ref):
                raise Stop('store through %r' % (base,))
            tf = self.frame_of(st, base.frame)
            tb = tf.L.get(base.local, UNINIT)
            tf.L[base.local] = self.updated(st, tf, tb, list(base.proj) + list(proj[1:]), val)
            return base
        if isinstance(e, dict) and 'field' in e:
            i = e['field']
            if isinstance(base, Agg):
                cur = base.fields[i] if i < len(base.fields) else UNINIT
                return base.with_field(i, self.updated(st, fr, cur, proj[1:], val))
            if base is UNINIT:
                return Agg('?', None, ()).with_field(i, self.updated(st, fr, UNINIT, proj[1:], val))
            raise Stop('field store into %r' % (base,))
        if isinstance(e, dict) and 'downcast' in e:
            return self.updated(st, fr, base, proj[1:], val)
        if isinstance(e, dict) and ('cindex' in e or 'index' in e):
            if 'cindex' in e:
                i = e['cindex']
            else:
                idx = fr.L.get(e['index'])
                lo, hi = st.itv(idx) if isinstance(idx, Int) else (0, -1)
                if lo != hi:
                    raise Stop('store at a symbolic index')
                i = lo
            if isinstance(base, Agg) and base.kind == 'array' and 0 <= i < len(base.fields):
                return base.with_field(i, self.updated(st, fr, base.fields[i], proj[1:], val))
            raise Stop('indexed store into %r' % (base,))
        raise Stop('store projection %r' % (e,))

    # ------------------------------------------------------------ operands
    def const_value(self, st, fr, c):
        if 'int' in c:
            ty = c['ty']
            return K(int(c['int']), ty if ty in INT_RANGES else 'i128')
        if 'fn' in c:
            return FnVal(c)
        if 'agg' in c:
            fields = [self.const_value(st, fr, f) for f in c['fields']]
            if c['agg'] == 'adt':
                return Agg(c['adt'], c.get('variant'), fields)
            return Agg(c['agg'], None, fields)
        if 'promoted' in c:
            return self.promoted(st, c['of'], c['promoted'])
        if 'static' in c:
            return self.static_ref(st, c['static'])
        ty = c.get('ty', '?')
        if 'str' in c:
            return SliceVal(K(len(c['str'].encode()), 'usize'), 'str:' + c['str'][:40])
        if 'bytes' in c:
            return Opaque(c.get('ty', '&[u8]'), ('bytes', tuple(c['bytes'])))
        if ty in ('&str', "&'static str"):
            return SliceVal(st.fresh('usize', 0, 2**40, 'strlen'), 'str')
        # associated constant of a generic parameter: <Self as Trait>::NAME resolved through the frame's substitution
        m = re.match(r'^<(\w+) as ([\w:]+)>::(\w+)$', str(c.get('opaque')))
        if m and fr is not None and fr.gsubst and m.group(1) in fr.gsubst:
            self_ty = strip_lt(fr.gsubst[m.group(1)])
            for im in (self.db.impls.values() if isinstance(self.db.impls, dict) else self.db.impls):
                tr = im.get('trait') or ''
                if im.get('self') == self_ty and (tr == m.group(2) or tr.endswith('::' + m.group(2)) or tr.endswith(m.group(2))):
                    for cst in im.get('consts') or []:
                        if cst['name'] == m.group(3) and cst.get('value'):
                            return self.const_value(st, fr, cst['value'])
        return Opaque(ty, str(c.get('opaque'))[:40])

    def promoted(self, st, fid, idx):
        key = ('P', fid, idx)
        if key not in st.pframes:
            fn = self.db.fns[fid]
            body = fn['promoted'][idx]
            pf = Frame(fn, body, {})
            # promoted bodies are straight-line: evaluate with a private mini loop
            sub = State(st.atoms)
            sub.pframes = st.pframes
            sub.bounds, sub.forms, sub.cong, sub.subst = st.bounds, st.forms, st.cong, st.subst
            sub.frames = [Frame(None, None, {}), pf]
            pf.dest = None
            guard = 0
            while True:
                guard += 1
                if guard > 200:
                    raise Stop('promoted too long')
                blk = body['blocks'][pf.bb]
                if pf.si < len(blk['stmts']):
                    s_ = blk['stmts'][pf.si]
                    v = self.rvalue(sub, pf, s_['rv'], self.place_ty_hint(pf, s_['assign']))
                    self.store(sub, pf, s_['assign'], v)
                    pf.si += 1
                    continue
                t = blk['term']
                if t == 'return':
                    break
                if isinstance(t, dict) and 'goto' in t:
                    self.goto(pf, t['goto'])
                    continue
                raise Stop('promoted terminator %s' % (str(t)[:60],))
            # references created inside point to frame index 1 of `sub`; re-home them to the pframe key
            st.pframes[key] = pf
            pf.L = {k: self.rehome(v, 1, key) for k, v in pf.L.items()}
        return st.pframes[key].L.get(0, UNINIT)

    def rehome(self, v, old, new):
        if isinstance(v, Ref) and v.frame == old:
            return Ref(new, v.local, v.proj)
        if isinstance(v, Agg):
            return Agg(v.kind, v.variant, [self.rehome(f, old, new) for f in v.fields])
        return v

    def static_ref(self, st, sid):
        key = ('S', sid)
        if key not in st.pframes:
            it = self.db.items.get(sid)
            val = Opaque(it['ty'] if it else '?', 'static ' + sid)
            st.pframes[key] = Frame(None, None, {0: val})
        return Ref(key, 0, ())

    def operand(self, st, fr, o):
        if 'const' in o:
            return self.const_value(st, fr, o['const'])
        pl = o.get('copy') or o.get('move')
        if pl is None:
            if 'runtime_checks' in o:
                # cfg!(debug_assertions)/ub_checks style queries
                return K(1 if self.opts.profile == 'dev' else 0, 'bool')
            raise Stop('operand %r' % (o,))
        v = self.load_place(st, fr, pl)
        if v is UNINIT or v is HAVOC:
            raise Stop('read of %r %r in %s' % (v, pl, fr.fn['id'] if fr.fn else '?'))
        return v

    # ------------------------------------------------------------ rvalues
    def rvalue(self, st, fr, rv, ty):
        if 'use' in rv:
            return self.operand(st, fr, rv['use'])
        if 'ref' in rv or 'rawptr' in rv:
            pl = rv['place']
            return self.make_ref(st, fr, pl)
        if 'discr' in rv:
            v = self.load_place(st, fr, rv['discr'])
            return self.discriminant(st, v, ty or 'isize')
        if 'agg' in rv:
            k = rv['agg']
            ops = [self.operand(st, fr, o) for o in rv['ops']]
            if k == 'tuple':
                return Agg('tuple', None, ops)
            if k == 'array':
                return Agg('array', None, ops)
            if isinstance(k, dict) and 'adt' in k:
                return Agg(k['adt'], k['variant'], ops)
            if isinstance(k, dict) and 'closure' in k:
                return Agg('closure:' + k['closure'], None, ops)
            raise Stop('aggregate %r' % (k,))
        if 'repeat' in rv:
            n = int(rv.get('n', -1))
            if not 0 <= n <= 256:
                raise Stop('array repeat of length %s' % rv.get('n'))
            v = self.operand(st, fr, rv['repeat'])
            return Agg('array', None, [v] * n)
        if 'binop' in rv:
            a = self.operand(st, fr, rv['l'])
            b = self.operand(st, fr, rv['r'])
            return self.binop(st, rv['binop'], a, b, ty)
        if 'unop' in rv:
            x = self.operand(st, fr, rv['x'])
            return self.unop(st, rv['unop'], x, ty)
        if 'cast' in rv:
            x = self.operand(st, fr, rv['x'])
            return self.cast(st, rv['cast'], x, rv['to'])
        if 'tlsref' in rv:
            return self.static_ref(st, rv['tlsref'])
        raise Stop('rvalue %s' % (str(rv)[:80],))

    def make_ref(self, st, fr, pl):
        proj = pl['proj']
        depth = self.depth_of(st, fr)
        if proj and proj[0] == 'deref':
            base = fr.L.get(pl['local'])
            if isinstance(base, Ref):
                return Ref(base.frame, base.local, list(base.proj) + [self.freeze_proj(st, fr, e) for e in proj[1:]])
            if isinstance(base, (SliceVal, Opaque)) and len(proj) == 1:
                return base
            if isinstance(base, SliceVal) and len(proj) == 2 and isinstance(proj[1], dict) and 'cindex' in proj[1] and not proj[1].get('from_end'):
                # &s[k]: a reference to one element (the bounds check is a separate assert)
                from .models import byte_at, _fresh_byte_ref
                if getattr(self.opts, 'byte_positions', False):
                    return byte_at(self, st, self.mk(st, 'usize', base.pos(proj[1]['cindex']), 0, None))
                return _fresh_byte_ref(self, st)
            if isinstance(base, SliceVal) and len(proj) == 2 and isinstance(proj[1], dict) and str(proj[1].get('other', '')).startswith('Subslice'):
                # &s[from .. len - to]   (slice patterns `[a, rest @ ..]`): only the length is tracked
                m = re.match(r'Subslice \{ from: (\d+), to: (\d+), from_end: (true|false) \}', proj[1]['other'])
                if m:
                    a_, b_, fe = int(m.group(1)), int(m.group(2)), m.group(3) == 'true'
                    newlen = padd(base.len.p, pconst(a_ + b_), -1) if fe else pconst(b_ - a_)
                    if not st.sign(newlen) <= NONNEG:
                        raise Stop('subslice [%d..%s%d] of a slice not known to be long enough' % (a_, 'len-' if fe else '', b_))
                    return SliceVal(self.mk(st, 'usize', newlen, 0, None), base.tag, (padd(base.tail or {}, pconst(b_)) if (b_ or base.tail) and fe else base.tail))
            if isinstance(base, Agg) and base.kind in ('strref', 'string', 'fmtargs') and len(proj) == 1:
                return base
            raise Stop('reborrow of %r' % (base,))
        # a deref in the middle of the projection: resolve prefix to a Ref
        for i, e in enumerate(proj):
            if e == 'deref':
                v = self.project(st, fr, fr.L.get(pl['local'], UNINIT), proj[:i])
                if isinstance(v, Ref):
                    return Ref(v.frame, v.local, list(v.proj) + [self.freeze_proj(st, fr, x) for x in proj[i + 1:]])
                raise Stop('reborrow through %r' % (v,))
        return Ref(depth, pl['local'], [self.freeze_proj(st, fr, e) for e in proj])

    def freeze_proj(self, st, fr, e):
        if isinstance(e, dict) and 'index' in e:
            idx = fr.L.get(e['index'])
            lo, hi = st.itv(idx)
            if lo != hi:
                raise Stop('symbolic index in borrow')
            return {'cindex': lo}
        return e

    def depth_of(self, st, fr):
        for i, f in enumerate(st.frames):
            if f is fr:
                return i
        for k, f in st.pframes.items():
            if f is fr:
                return k
        raise Stop('frame not found')

    def discriminant(self, st, v, ty):
        if isinstance(v, Agg):
            adt = self.db.adts.get(v.kind)
            if adt is None or v.variant is None:
                raise Stop('discriminant of %r' % (v,))
            d = None
            for var in adt['variants']:
                if var['index'] == v.variant:
                    d = int(var['discr'])
            if d is None:
                raise Stop('no discr')
            if ty in INT_RANGES and INT_RANGES[ty][0] < 0:
                bits = {'i8': 8, 'i16': 16, 'i32': 32, 'i64': 64, 'i128': 128, 'isize': 64}[ty]
                if d >= 2**(bits - 1):
                    d -= 2**bits
            return K(d, ty if ty in INT_RANGES else 'isize')
        if isinstance(v, EnumSym):
            return v.discr_int(st, ty)
        raise Stop('discriminant of %r' % (v,))

    # ------------------------------------------------------------ arithmetic
    def mk(self, st, ty, p, lo=None, hi=None, cond=None):
        """abstract int with term p; interval from the term intersected with [lo,hi] and the type range"""
        p = st.norm(p)
        rlo, rhi = INT_RANGES[ty]
        plo, phi = st.range_of(p)
        if plo is None:
            plo = rlo
        if phi is None:
            phi = rhi
        if lo is not None:
            plo = max(plo, lo)
        if hi is not None:
            phi = min(phi, hi)
        plo, phi = max(plo, rlo), min(phi, rhi)
        if plo > phi:
            raise Infeasible()
        return Int(ty, plo, phi, p, cond)

    def wrap(self, st, ty, p, tag='wrap'):
        """result of a possibly wrapping operation: keep the term only if it provably fits"""
        rlo, rhi = INT_RANGES[ty]
        r = st.in_range(p, rlo, rhi)
        if r is True:
            return self.mk(st, ty, p)
        return st.fresh(ty, tag=tag)

    # ------------------------------------------------------------ SWAR: words as byte lanes (no forking: undecided carries make lanes unknown)
    def lanes_to_int(self, st, v):
        p = {}
        for j, l in enumerate(v.lanes):
            p = padd(p, pscale(l.p, 256 ** j))
        return self.mk(st, v.ty, p)

    def const_lanes(self, c, n):
        return [K((c >> (8 * j)) & 255, 'u8') for j in range(n)]

    def lanes_bitop(self, st, op, a, b):
        n = len(a.lanes) if isinstance(a, Lanes) else len(b.lanes)
        la = a.lanes if isinstance(a, Lanes) else self.const_lanes(st.itv(a)[0], n)
        lb = b.lanes if isinstance(b, Lanes) else self.const_lanes(st.itv(b)[0], n)
        return Lanes(a.ty if isinstance(a, Lanes) else b.ty, [self.bitop(st, op, x, y, 'u8') for x, y in zip(la, lb)])

    def lanes_addsub(self, st, a, c, sub):
        """a (Lanes) +- c (constant), wrapping at the word size, lane by lane with carry / borrow decided by intervals (else: unknown lanes from there on)"""
        n = len(a.lanes)
        cl = self.const_lanes(c, n)
        out = []
        carry = 0           # 0 / 1 known, None unknown
        for x, cj in zip(a.lanes, cl):
            if carry is None:
                out.append(st.fresh('u8', 0, 255, 'lane'))
                continue
            k = st.itv(cj)[0] + carry
            p = padd(x.p, pconst(k), -1 if sub else 1)
            lo, hi = st.range_of(p)
            if lo is not None and lo >= 0 and hi <= 255:
                out.append(self.mk(st, 'u8', p, lo, hi))
                carry = 0
            elif sub and hi is not None and hi < 0 and lo >= -256:
                out.append(self.mk(st, 'u8', padd(p, pconst(256)), lo + 256, hi + 256))
                carry = 1
            elif not sub and lo is not None and lo >= 256 and hi <= 511:
                out.append(self.mk(st, 'u8', padd(p, pconst(256), -1), lo - 256, hi - 256))
                carry = 1
            else:
                out.append(st.fresh('u8', 0, 255, 'lane'))
                carry = None
        return Lanes(a.ty, out)

    def binop(self, st, op, a, b, ty):
        if isinstance(a, Lanes) or isinstance(b, Lanes):
            const_b = isinstance(b, Int) and st.itv(b)[0] == st.itv(b)[1]
            const_a = isinstance(a, Int) and st.itv(a)[0] == st.itv(a)[1]
            if op in ('BitAnd', 'BitOr', 'BitXor') and (isinstance(a, Lanes) or const_a) and (isinstance(b, Lanes) or const_b):
                return self.lanes_bitop(st, op, a, b)
            if op in ('Shr', 'Shl') and isinstance(a, Lanes) and const_b and st.itv(b)[0] % 8 == 0:
                k = st.itv(b)[0] // 8
                n = len(a.lanes)
                z = [K(0, 'u8')] * min(k, n)
                return Lanes(a.ty, (list(a.lanes[k:]) + z) if op == 'Shr' else (z + list(a.lanes[:n - k])))
            a = self.lanes_to_int(st, a) if isinstance(a, Lanes) else a
            b = self.lanes_to_int(st, b) if isinstance(b, Lanes) else b
        if op in ('Eq', 'Ne', 'Lt', 'Le', 'Gt', 'Ge'):
            return self.compare(st, op, a, b)
        if op == 'Cmp':
            raise Stop('three-way Cmp')
        if op == 'Offset':
            return Opaque('ptr', 'offset')
        if not (isinstance(a, Int) and isinstance(b, Int)):
            raise Stop('binop %s on %r, %r' % (op, a, b))
        if op.endswith('WithOverflow'):
            base = op[:-12]
            ety = a.ty
            p = self.arith_poly(st, base, a, b)
            rlo, rhi = INT_RANGES[ety]
            olo, ohi = self.op_interval(st, base, a, b)
            if rlo <= olo and ohi <= rhi:
                self.bound_term(st, p, olo, ohi)
            r = st.in_range(p, rlo, rhi)
            if r is True:
                val = self.mk(st, ety, p)
                flag = K(0, 'bool')
            elif r is False:
                val = st.fresh(ety, tag='ovf')
                flag = K(1, 'bool')
            else:
                # value is meaningful only on the in-range side; keep the term (callers look at it after the assert)
                val = Int(ety, rlo, rhi, st.norm(p))
                flag = Int('bool', 0, 1, patom(st.atoms.fresh('ovf')), ('range', p, rlo, rhi, False))
                st._jset('bounds', list(patoms(flag.p))[0], (0, 1))
            return Agg('tuple', None, (val, flag))
        rty = ty if ty in INT_RANGES else a.ty
        if op in ('Add', 'Sub', 'Mul', 'AddUnchecked', 'SubUnchecked', 'MulUnchecked'):
            base = op.replace('Unchecked', '')
            p = self.arith_poly(st, base, a, b)
            olo, ohi = self.op_interval(st, base, a, b)
            if INT_RANGES[rty][0] <= olo and ohi <= INT_RANGES[rty][1]:
                self.bound_term(st, p, olo, ohi)
            return self.wrap(st, rty, p)
        if op in ('Div', 'Rem'):
            return self.divrem(st, op, a, b, rty)
        if op in ('Shl', 'Shr', 'ShlUnchecked', 'ShrUnchecked'):
            return self.shift(st, op[:3], a, b, rty)
        if op in ('BitAnd', 'BitOr', 'BitXor'):
            return self.bitop(st, op, a, b, rty)
        raise Stop('binop %s' % op)

    def op_interval(self, st, base, a, b):
        """interval of a base-operation result from the operands' own intervals (tighter than the term's for products of bounded differences)"""
        alo, ahi = st.itv(a)
        blo, bhi = st.itv(b)
        if base == 'Add':
            return alo + blo, ahi + bhi
        if base == 'Sub':
            return alo - bhi, ahi - blo
        c = (alo * blo, alo * bhi, ahi * blo, ahi * bhi)
        return min(c), max(c)

    def bound_term(self, st, p, lo, hi):
        """record the operand-derived interval of term p as a fact (if it tightens what the term's atoms give)"""
        plo, phi = st.range_of(p)
        if plo is None or plo < lo or phi is None or phi > hi:
            if pis_const(st.norm(p)) is None:
                st.assume_in_range(p, lo, hi)

    def arith_poly(self, st, base, a, b):
        if base == 'Add':
            return padd(a.p, b.p)
        if base == 'Sub':
            return padd(a.p, b.p, -1)
        if base == 'Mul':
            return pmul(st.norm(a.p), st.norm(b.p))
        raise Stop('arith %s' % base)

    def compare(self, st, op, a, b):
        if isinstance(a, Int) and isinstance(b, Int):
            # leading_zeros(x) >= k  <=>  x < 2^(bits-k)   (x >= 0)
            la = plinear_single(st.norm(a.p))
            if la is not None and la[1] == 1 and la[2] == 0 and st.atoms.desc[la[0]][0] == 'lz' and op in ('Ge', 'Gt', 'Lt', 'Le'):
                blo_, bhi_ = st.itv(b)
                _, Xf, bits = st.atoms.desc[la[0]]
                X = pthaw(Xf)
                if blo_ == bhi_ and st.sign(X) <= NONNEG:
                    k = blo_ + (1 if op in ('Gt', 'Le') else 0)        # lz >= k  (Ge/Gt)   or   lz < k (Lt/Le)
                    if 0 <= k <= bits:
                        thr = K(2 ** (bits - k), a.ty if INT_RANGES[a.ty][1] >= 2 ** (bits - k) else 'u128')
                        xi = Int('u128', 0, 2 ** 128 - 1, X)
                        return self.compare(st, 'Lt' if op in ('Ge', 'Gt') else 'Ge', xi, thr)
            # trailing_zeros(x) == 0  <=>  x is odd (x != 0 is implied)
            if la is not None and la[1] == 1 and la[2] == 0 and st.atoms.desc[la[0]][0] == 'tz' and op in ('Eq', 'Ne', 'Gt') and st.itv(b) == (0, 0):
                _, Xf, bits = st.atoms.desc[la[0]]
                X = pthaw(Xf)
                xi = Int('u128', 0, 2 ** 128 - 1, X)
                if st.sign(X) <= NONNEG:
                    r2 = self.divrem(st, 'Rem', xi, K(2, 'u128'), 'u128')
                    return self.compare(st, 'Ne' if op == 'Eq' else 'Eq', r2, K(0, 'u128'))
            d = padd(a.p, b.p, -1)
            strue = {'Eq': ZERO, 'Ne': NONZERO, 'Lt': NEG, 'Le': NONPOS, 'Gt': POS, 'Ge': NONNEG}[op]
            # use the value intervals as well (they may be tighter than the term's)
            alo, ahi = st.itv(a)
            blo, bhi = st.itv(b)
            s = set(st.sign(d))
            if alo > bhi:
                s &= {1}
            if ahi < blo:
                s &= {-1}
            if alo >= bhi:
                s &= {0, 1}
            if ahi <= blo:
                s &= {-1, 0}
            if not s:
                raise Infeasible()
            if s <= strue:
                return K(1, 'bool')
            if not (s & strue):
                return K(0, 'bool')
            r = st.fresh('bool', 0, 1, 'cmp')
            r.cond = ('sign', d, strue)
            for a_ in patoms(r.p):
                st.atoms.cond[a_] = r.cond       # definition of the indicator atom (path independent)
            return r
        if isinstance(a, Agg) and isinstance(b, Agg) and a.variant is not None and not a.fields and not b.fields and op in ('Eq', 'Ne'):
            eq = a.variant == b.variant
            return K(int(eq if op == 'Eq' else not eq), 'bool')
        raise Stop('compare %s %r %r' % (op, a, b))

    def sign_split(self, st, p, zero_with='pos'):
        """fork on the sign of p: returns -1 or +1 (zero goes with `zero_with`)"""
        if zero_with == 'pos':
            idx = st.decide(p, [NEG, NONNEG])
            return -1 if idx == 0 else 1
        idx = st.decide(p, [NONPOS, POS])
        return -1 if idx == 0 else 1

    def tdiv_atom(self, st, A, B):
        """truncating quotient atom T of A / B; records the remainder facts. A, B normalised polys, B != 0 known."""
        sb = st.decide(B, [NEG, POS, ZERO])
        if sb == 2:
            raise Stop('division by a divisor that may be zero')
        sa = st.decide(A, [NEG, NONNEG])
        A = st.norm(A)
        B = st.norm(B)
        ca, cb = pis_const(A), pis_const(B)
        if ca is not None and cb is not None:
            q = abs(ca) // abs(cb)
            if (ca < 0) != (cb < 0):
                q = -q
            return pconst(q)
        if cb is not None and A and all(v % cb == 0 for v in A.values()):
            return {m_: v // cb for m_, v in A.items()}       # exact division of the term
        if cb is not None and cb > 1 and sa == 1 and len(A) > 1:
            # floor((c*A1 + A2) / c) = A1 + floor(A2 / c): split off the part of the dividend that is a multiple of the divisor
            A1 = {m_: v // cb for m_, v in A.items() if v % cb == 0 and m_ != ()}
            if A1:
                A2 = {m_: v for m_, v in A.items() if not (v % cb == 0 and m_ != ())}
                a2lo, a2hi = st.range_of(A2) if A2 else (0, 0)
                if a2lo is not None and a2hi is not None and a2lo >= 0 and a2hi < cb:
                    return A1
                if a2lo is not None and a2lo >= 0 and len(A2) < len(A):
                    return padd(A1, self.tdiv_atom(st, st.norm(A2), B))
        if st.tactics is not None and cb is None and sb == 1:
            lsb = plinear_single(B)
            if lsb is not None and lsb[1] == 1 and lsb[2] == 0 and lsb[0] not in st.tactics['mult']:
                st.tactics = dict(st.tactics, mult=list(st.tactics['mult']) + [lsb[0]])      # a positive divisor atom
        desc = ('tdiv', pfreeze(A), pfreeze(B))
        known = st.atoms.lookup(desc)
        if known is None and st.subst:
            # the same quotient may already exist under the name it got before an atom of its dividend was substituted
            fa, fb = pfreeze(A), pfreeze(B)
            for i_, d_ in enumerate(st.atoms.desc):
                if d_[0] == 'tdiv' and i_ in st.bounds and i_ not in st.subst and (d_[2] == fb or pfreeze(st.norm(pthaw(d_[2]))) == fb):
                    if pfreeze(st.norm(pthaw(d_[1]))) == fa:
                        desc = d_
                        known = i_
                        break
        T = st.atoms.get(desc)
        Tp = patom(T)
        R = padd(A, pmul(B, Tp), -1)        # remainder A - B*T
        # bounds of T from the intervals
        alo, ahi = st.range_of(A)
        blo, bhi = st.range_of(B)
        if None not in (alo, ahi, blo, bhi):
            bm = min(abs(blo), abs(bhi)) if (blo > 0 or bhi < 0) else 1
            bm = max(bm, 1)
            amax = max(abs(alo), abs(ahi))
            amin = 0 if alo <= 0 <= ahi else min(abs(alo), abs(ahi))
            bmax = max(abs(blo), abs(bhi))
            qmax = amax // bm
            qmin = amin // bmax
            neg_q = (sa == 0) != (sb == 0)
            tb = (-qmax, -qmin) if neg_q else (qmin, qmax)
            old = st.bounds.get(T)
            if old is not None:
                tb = (max(tb[0], old[0]), min(tb[1], old[1]))
            if cb is None and sa == 1 and sb == 1 and tb[1] >= DIGIT:
                # relational bound (schoolbook digit step): A < K * B  =>  A / B < K   for K = 2^64 (and 2^64 + 2: the
                # range of Knuth's quotient-digit estimate, tried only when a spec enabled the non-linear tactics)
                for K_ in ((DIGIT, DIGIT + 2) if st.tactics else (DIGIT,)):
                    if tb[1] >= K_ and st.sign(padd(A, pscale(B, K_), -1)) <= NEG:
                        tb = (tb[0], K_ - 1)
                        break
            if tb[0] > tb[1]:
                raise Infeasible()
            if tb[0] == tb[1]:
                Tp = pconst(tb[0])
                R = padd(A, pscale(B, tb[0]), -1)
            else:
                st._jset('bounds', T, tb)
        # remainder facts: sign follows the dividend, magnitude below |B|
        if sa == 1:      # A >= 0
            st.assume(R, NONNEG)
            st.assume(padd(R, B, -1 if sb == 1 else 1), NEG)      # R - |B| < 0
        else:            # A < 0
            st.assume(R, NONPOS)
            st.assume(padd(R, B, 1 if sb == 1 else -1), POS)      # R + |B| > 0
        return Tp

    def divrem(self, st, op, a, b, ty):
        A, B = st.norm(a.p), st.norm(b.p)
        cb = pis_const(B)
        if op == 'Rem' and cb is not None and cb > 0:
            # congruence short-cut: a % c with a known modulo a multiple of c
            m, r = st.cong_poly(A)
            ca = pis_const(A)
            if ca is None and m > 1 and m % cb == 0:
                r0 = r % cb
                if r0 == 0:
                    return K(0, ty)
                sa = st.decide(A, [NEG, NONNEG])
                return K(r0 if sa == 1 else r0 - cb, ty)
        T = self.tdiv_atom(st, A, B)
        if op == 'Div':
            return self.mk(st, ty, T)
        R = padd(A, pmul(B, T), -1)
        R = st.norm(R)
        # interval of the remainder: |R| < |B|, sign of A
        blo, bhi = st.range_of(B)
        bm = max(abs(blo), abs(bhi)) if None not in (blo, bhi) else None
        sa = st.sign(A)
        lo = hi = None
        if bm is not None:
            lo, hi = -(bm - 1), bm - 1
        if sa <= NONNEG:
            lo = 0
        if sa <= NONPOS:
            hi = 0
        v = self.mk(st, ty, R, lo, hi)
        # congruence of the remainder is not tracked
        return v

    def shift(self, st, op, a, b, ty):
        blo, bhi = st.itv(b)
        if blo != bhi:
            A = st.norm(a.p)
            Bn = st.norm(b.p)
            ls = plinear_single(Bn)
            if op == 'Shr' and ls is not None and ls[1] == 1 and ls[2] == 0:
                d = st.atoms.desc[ls[0]]
                if d[0] == 'tz' and d[1] == pfreeze(A):
                    # x >> x.trailing_zeros(): the odd part of x
                    sa = st.sign(A)
                    if sa == ZERO:
                        return K(0, ty)
                    m, r = st.cong_poly(A)
                    if m > 0 and m % 2 == 0 and r % 2 == 1:
                        return a
                    o = st.atoms.get(('odd', pfreeze(A)))
                    alo, ahi = st.itv(a)
                    if 0 not in sa:
                        st._jset('bounds', o, (1, max(ahi, 1)))
                        st._jset('cong', o, (2, 1))
                    else:
                        st._jset('bounds', o, (0, max(ahi, 0)))
                    v = Int(ty, st.bounds[o][0], st.bounds[o][1], patom(o))
                    st.assume(padd(v.p, A, -1), NONPOS)
                    return v
            if op == 'Shl':
                s_ = st.atoms.get(('shl', pfreeze(A), pfreeze(Bn)))
                if s_ not in st.bounds:
                    rlo, rhi = INT_RANGES[ty]
                    st._jset('bounds', s_, (rlo, rhi))
                return Int(ty, st.bounds[s_][0], st.bounds[s_][1], patom(s_))
            return st.fresh(ty, tag='shift')
        k = blo
        bits = {'u8': 8, 'i8': 8, 'u16': 16, 'i16': 16, 'u32': 32, 'i32': 32, 'u64': 64, 'i64': 64, 'u128': 128, 'i128': 128, 'usize': 64, 'isize': 64}[ty]
        if k >= bits or k < 0:
            raise Stop('shift amount %d' % k)
        if op == 'Shl':
            p = pscale(a.p, 2**k)
            rlo, rhi = INT_RANGES[ty]
            if st.in_range(p, rlo, rhi) is True:
                return self.mk(st, ty, p)
            alo, ahi = st.itv(a)
            if alo == ahi:
                # constant operand: the bits shifted out are lost, the result is read in two's complement
                span = rhi - rlo + 1
                return K((alo * 2**k - rlo) % span + rlo, ty)
            if rlo == 0 and alo >= 0 and k > 0:
                # the high k bits are shifted out: 2^k * (a mod 2^(w-k)) = 2^k*a - 2^w * (a / 2^(w-k))
                T = self.tdiv_atom(st, st.norm(a.p), pconst(2**(bits - k)))
                return self.mk(st, ty, padd(p, pscale(T, 2**bits), -1), 0, rhi + 1 - 2**k)
            return st.fresh(ty, tag='shl')
        # Shr: floor division by 2^k (arithmetic shift)
        alo, ahi = st.itv(a)
        if alo >= 0:
            if k == 0:
                return a
            T = self.tdiv_atom(st, st.norm(a.p), pconst(2**k))
            return self.mk(st, ty, T, alo >> k, ahi >> k)
        return st.fresh(ty, alo >> k, ahi >> k, 'shr')

    def mask_lanes(self, st, x, w, lm, stride, nl):
        """x & mask where the mask keeps the low bits `lm` (= 2^k - 1) of every `stride`-th w-bit lane and clears the others;
        x's polynomial is split into w-bit lanes by the coefficients of its monomials (each lane must have range [0, 2^w))"""
        P = st.norm(x.p)
        lanes = [dict() for _ in range(nl)]
        for m_, c in P.items():
            if c <= 0:
                return None
            if m_ == ():
                for j in range(nl):
                    cj = (c >> (w * j)) & ((1 << w) - 1)
                    if cj:
                        lanes[j][()] = cj
                if c >> (w * nl):
                    return None
                continue
            j = (c.bit_length() - 1) // w
            if j >= nl or c % (1 << (w * j)):
                return None
            lanes[j][m_] = lanes[j].get(m_, 0) + (c >> (w * j))
        out = {}
        for j, L in enumerate(lanes):
            if not L:
                continue
            lo, hi = st.range_of(L)
            if lo is None or lo < 0 or hi >= (1 << w):
                return None
            if j % stride:
                continue
            if hi <= lm:
                r = L
            else:
                r = self.divrem(st, 'Rem', self.mk(st, x.ty, L, lo, hi), K(lm + 1, x.ty), x.ty).p
            out = padd(out, pscale(r, 1 << (w * j)))
        return self.mk(st, x.ty, out)

    def tnum(self, st, v):
        """(value, mask) known-bits abstraction derived from the interval (common high prefix)"""
        lo, hi = st.itv(v)
        if lo < 0:
            return None
        x = lo ^ hi
        mask = (1 << x.bit_length()) - 1
        return (lo & ~mask, mask)

    def bitop(self, st, op, a, b, ty):
        if a.ty == 'bool' and b.ty == 'bool':
            alo, ahi = st.itv(a)
            blo, bhi = st.itv(b)
            ca = alo if alo == ahi else None
            cb = blo if blo == bhi else None
            if op == 'BitAnd':
                if ca == 0 or cb == 0:
                    return K(0, 'bool')
                if ca == 1:
                    return b
                if cb == 1:
                    return a
            elif op == 'BitOr':
                if ca == 1 or cb == 1:
                    return K(1, 'bool')
                if ca == 0:
                    return b
                if cb == 0:
                    return a
            elif ca is not None and cb is not None:
                return K(ca ^ cb, 'bool')
            # undecided combination: decide the left operand first (forks), then re-evaluate
            ta_ = st.truth(a)
            return self.bitop(st, op, K(int(ta_), 'bool'), b, ty)
        # x & (periodic mask whose lane is 2^k - 1): mask every lane of the polynomial (monomials are assigned to lanes by their coefficients)
        if op == 'BitAnd':
            for x, m in ((a, b), (b, a)):
                mlo, mhi = st.itv(m)
                if mlo != mhi or mlo <= 0 or st.itv(x)[0] < 0 or st.itv(x)[0] == st.itv(x)[1]:
                    continue
                bits_ = {'u8': 8, 'u16': 16, 'u32': 32, 'u64': 64, 'u128': 128, 'usize': 64}.get(x.ty)
                if bits_ is None:
                    continue
                for w in (8, 16, 32, 64):
                    if w >= bits_:
                        break
                    lm = mlo & ((1 << w) - 1)
                    nl = bits_ // w
                    full = sum(lm << (w * j) for j in range(nl))
                    sub = [mlo == full, mlo == sum(lm << (w * j) for j in range(0, nl, 2)) and nl > 1]
                    if not any(sub) or lm == 0 or (lm & (lm + 1)) != 0:
                        continue
                    stride = 1 if sub[0] else 2
                    r = self.mask_lanes(st, x, w, lm, stride, nl)
                    if r is not None:
                        return r
        # x & (2^k - 1) is x mod 2^k (two's complement: also for negative x)
        if op == 'BitAnd':
            for x, m in ((a, b), (b, a)):
                mlo, mhi = st.itv(m)
                if mlo == mhi and mlo > 0 and (mlo & (mlo + 1)) == 0:
                    c = mlo + 1
                    xlo, xhi = st.itv(x)
                    if xlo == xhi:
                        return K(xlo & mlo, ty)
                    r = self.divrem(st, 'Rem', x, K(c, x.ty), x.ty)         # truncated remainder, sign of x
                    s = st.decide(r.p, [NEG, NONNEG])
                    if s == 1:
                        return self.mk(st, ty, r.p, 0, mlo)
                    return self.mk(st, ty, padd(r.p, pconst(c)), 0, mlo)
        if op in ('BitOr', 'BitXor'):
            # disjoint bits: a = 0 (mod 2^k), 0 <= b < 2^k  =>  a | b = a ^ b = a + b
            for x, y_ in ((a, b), (b, a)):
                ylo, yhi = st.itv(y_)
                xlo, xhi = st.itv(x)
                if ylo >= 0 and xlo >= 0:
                    if yhi == 0:
                        return x
                    k = yhi.bit_length()
                    m_, r_ = st.cong_poly(st.norm(x.p))
                    if (m_ == 0 and r_ % (1 << k) == 0) or (m_ > 0 and m_ % (1 << k) == 0 and r_ % (1 << k) == 0):
                        return self.mk(st, ty, padd(x.p, y_.p), xlo + ylo, xhi + yhi)
        if op == 'BitOr':
            # x | 1: x if x is odd, x + 1 if even (parity decided on the path, forks)
            for x, y_ in ((a, b), (b, a)):
                if st.itv(y_) == (1, 1) and st.itv(x)[0] >= 0:
                    r = self.divrem(st, 'Rem', x, K(2, x.ty), x.ty)
                    odd = st.decide(r.p, [ZERO, POS | NEG])
                    return x if odd == 1 else self.mk(st, ty, padd(x.p, pconst(1)))
        ta, tb = self.tnum(st, a), self.tnum(st, b)
        if ta is None or tb is None:
            return st.fresh(ty, tag='bits')
        (va, ma), (vb, mb) = ta, tb
        if op == 'BitAnd':
            alpha, beta = va | ma, vb | mb
            v = va & vb
            m = (alpha & beta) & ~v
        elif op == 'BitOr':
            v = va | vb
            m = (ma | mb) & ~v
        else:
            v = va ^ vb
            m = ma | mb
            v &= ~m
        if m == 0:
            return K(v, ty)
        return st.fresh(ty, v, v | m, 'bits')

    def unop(self, st, op, x, ty):
        if op == 'Not':
            if isinstance(x, Int) and x.ty == 'bool':
                lo, hi = st.itv(x)
                if lo == hi:
                    return K(1 - lo, 'bool')
                r = st.fresh('bool', 0, 1, 'not')
                if x.cond is not None and x.cond[0] == 'sign':
                    r.cond = ('sign', x.cond[1], ALL - x.cond[2])
                elif x.cond is not None and x.cond[0] == 'range':
                    r.cond = ('range', x.cond[1], x.cond[2], x.cond[3], not x.cond[4])
                else:
                    r.cond = ('sign', x.p, ZERO)
                return r
            if isinstance(x, Int):
                lo, hi = INT_RANGES[x.ty]
                if lo == 0:
                    return self.mk(st, x.ty, padd(pconst(hi), x.p, -1))
                return self.mk(st, x.ty, padd(pconst(-1), x.p, -1))
            raise Stop('Not on %r' % (x,))
        if op == 'Neg':
            p = pneg(x.p)
            return self.wrap(st, x.ty, p, 'neg')
        if op == 'PtrMetadata':
            if isinstance(x, SliceVal):
                return x.len
            xv = x
            while isinstance(xv, Ref):
                tf = self.frame_of(st, xv.frame)
                xv = self.project(st, tf, tf.L.get(xv.local), xv.proj)
            if isinstance(xv, Agg) and xv.kind == 'array':
                return K(len(xv.fields), 'usize')
            raise Stop('PtrMetadata of %r' % (x,))
        raise Stop('unop %s' % op)

    def cast(self, st, kind, x, to):
        if kind.startswith('IntToInt') or kind in ('IntToInt',):
            if not isinstance(x, Int):
                raise Stop('int cast of %r' % (x,))
            if to not in INT_RANGES:
                raise Stop('cast to %s' % to)
            rlo, rhi = INT_RANGES[to]
            lo, hi = st.itv(x)
            if x.ty == 'bool' and to != 'bool' and lo != hi:
                return K(int(st.truth(x)), to)          # a flag used as a number: decide it (forks)
            if rlo <= lo and hi <= rhi:
                return Int(to, lo, hi, x.p, x.cond if to == 'bool' else None)
            # constant: wrap exactly
            if lo == hi:
                span = rhi - rlo + 1
                return K((lo - rlo) % span + rlo, to)
            r = st.in_range(x.p, rlo, rhi)
            if r is True:
                return self.mk(st, to, x.p)
            return st.fresh(to, tag='trunc')
        if kind.startswith('PointerCoercion') or kind.startswith('PtrToPtr') or kind == 'Transmute' or kind.startswith('Pointer'):
            return x
        if kind.startswith('IntToFloat') or kind.startswith('FloatToInt') or kind.startswith('FloatToFloat'):
            if to in INT_RANGES:
                return st.fresh(to, tag='fcast')
            if kind.startswith('IntToFloat') and isinstance(x, Int):
                return Agg('floatcast:' + to, None, (x,))        # the primitive cast of an integer term (rounding: Rust semantics)
            return Opaque(to, 'float')
        raise Stop('cast %s' % kind)

    # ------------------------------------------------------------ calls
    def call(self, st, fr, t, blk):
        c = t['call'].get('const') if isinstance(t['call'], dict) else None
        if c is None or 'fn' not in c:
            # a call through a function pointer / fn item held in a local: follow the value
            callee = None
            try:
                callee = self.operand(st, fr, t['call'])
            except (KeyError, TypeError):
                pass
            if isinstance(callee, Ref):
                callee = self.load(st, callee) if hasattr(self, 'load') else callee
            if not isinstance(callee, FnVal):
                raise Stop('indirect call')
            c = callee.c
        args = [self.operand(st, fr, a) for a in t['args']]
        r = c.get('resolved')
        fid = (r or c)['fn']
        path = norm_path((r or c)['path'])
        gargs = (r or c).get('args', [])
        # generic re-resolution inside an instantiated generic body
        if fid not in self.db.fns and fr.gsubst:
            re = self.reresolve(fr, c)
            if re is not None:
                fid, gargs = re
                path = self.db.fns[fid]['path']
        return self.dispatch(st, fr, t, fid, path, gargs, args)

    def reresolve(self, fr, c):
        """trait method call with generic arguments: substitute the frame's instantiation and look the impl up"""
        from .db import strip_lt
        base = c['fn']
        if '::' not in base:
            return None
        trait_id, meth = base.rsplit('::', 1)
        targs = [strip_lt(fr.gsubst.get(a, a)) for a in c.get('args', [])]
        im = self.db.impl_index.get((trait_id, tuple(targs)))
        if im is None:
            return None
        for it in im['items']:
            if it['name'] == meth and it['id'] in self.db.fns:
                return it['id'], []
        return None

    def dispatch(self, st, fr, t, fid, path, gargs, args):
        dest, target = t['dest'], t['target']
        summ = self.opts.summaries.get(fid)
        if summ is not None:
            val = summ(self, st, args, fid)
            return self.finish_call(st, fr, dest, target, val)
        fn = self.db.fns.get(fid)
        if fn is not None and fid not in self.opts.no_inline:
            if len(st.frames) > 40:
                raise Stop('call depth')
            gs = {}
            names = fn.get('generic_names') or []
            from .db import strip_lt
            for n, a in zip(names, gargs):
                gs[n] = strip_lt(fr.gsubst.get(a, a)) if fr.gsubst else strip_lt(a)
            L = {}
            for i, a in enumerate(args):
                L[i + 1] = a
            # "rust-call" ABI: a closure body has the parameters (env, a, b, ..) but `Fn*::call*` passes (env, (a, b, ..)): spread the tuple
            if fn.get('kind') == 'Closure' and len(args) == 2 and isinstance(args[1], Agg) and args[1].kind == 'tuple' and len(args[1].fields) == fn['arg_count'] - 1:
                args = [args[0]] + list(args[1].fields)
                L = {i + 1: a for i, a in enumerate(args)}
            if len(args) != fn['arg_count']:
                raise Stop('arity mismatch calling %s' % fid)
            nf = Frame(fn, fn, L, dest, target, gs)
            st.frames.append(nf)
            if Interp.PD_EXEC is not None:
                Interp.PD_EXEC.add((fid, -1))
            return None
        m = self.models.lookup(path, fid)
        if m is None:
            raise Stop('no model: %s' % path)
        if Interp.PD_EXEC is not None and self.models.is_inherit_overflow(path):
            Interp.PD_EXEC.add((fr.fn['id'], fr.bb))
        val = m(self, st, fr, args, path, gargs, t)
        if val is CALL_PUSHED:
            return None
        return self.finish_call(st, fr, dest, target, val)

    def finish_call(self, st, fr, dest, target, val):
        if target < 0:
            raise Stop('call without return target')
        self.store(st, fr, dest, val)
        self.goto(fr, target)
        return None

    def push_closure(self, st, fr, closure, cargs, dest, target, on_return=None, env_by_ref=None, then=None):
        """invoke a closure value (Agg 'closure:<id>') or fn item with the given arguments; `then(I, st, fr, result)` continues the modelled
        callee after the closure returned, as a step of its own (it may fork or call the next closure)"""
        if then is not None:
            on_return = (lambda I_, st_, r, then_=then: Defer(lambda I2, st2, fr2: then_(I2, st2, fr2, r)))
        if isinstance(closure, Agg) and closure.kind.startswith('closure:'):
            cid = closure.kind[len('closure:'):]
            fn = self.db.fns[cid]
            # first MIR argument is the environment: by value or by reference depending on the closure kind
            env_ty = fn['locals'][1]
            if env_ty.startswith('&'):
                # store the closure in a scratch local of the caller frame and pass a reference
                slot = ('env', len(st.frames), cid)
                fr.L[slot] = closure
                env = Ref(self.depth_of(st, fr), slot, ())
            else:
                env = closure
            L = {1: env}
            for i, a in enumerate(cargs):
                L[i + 2] = a
            nf = Frame(fn, fn, L, dest, target, fr.gsubst)
            nf.on_return = on_return
            st.frames.append(nf)
            return CALL_PUSHED
        if isinstance(closure, FnVal):
            r = closure.c.get('resolved') or closure.c
            summ = self.opts.summaries.get(r['fn'])
            if summ is not None:
                # a summarised function passed as a value (e.g. `unwrap_or_else(RoundingMode::default)`): apply the summary as at a direct call
                val = summ(self, st, list(cargs), r['fn'])
                if on_return is not None:
                    val = on_return(self, st, val)
                if isinstance(val, Defer):
                    fr.pending = (val.k, dest, target)
                    return CALL_PUSHED
                self.finish_call(st, fr, dest, target, val)
                return CALL_PUSHED
            fn = self.db.fns.get(r['fn'])
            if fn is None:
                # an external function passed as a value (`.map(Ordering::reverse)`): its model, applied as at a direct call
                path = norm_path(r['path'])
                m = self.models.lookup(path, r['fn'])
                if m is None:
                    raise Stop('call of external fn item %s' % r['path'])
                val = m(self, st, fr, list(cargs), path, r.get('args', []), {'dest': dest, 'target': target, 'args': []})
                if val is CALL_PUSHED:
                    raise Stop('external fn item %s needs a continuation' % r['path'])
                if on_return is not None:
                    val = on_return(self, st, val)
                if isinstance(val, Defer):
                    fr.pending = (val.k, dest, target)
                    return CALL_PUSHED
                self.finish_call(st, fr, dest, target, val)
                return CALL_PUSHED
            L = {i + 1: a for i, a in enumerate(cargs)}
            nf = Frame(fn, fn, L, dest, target, {})
            nf.on_return = on_return
            st.frames.append(nf)
            return CALL_PUSHED
        raise Stop('call of %r' % (closure,))


CALL_PUSHED = object()


class Defer:
    """returned by an on_return callback: continue with k(I, st, fr) in the caller as a separate step"""
    def __init__(self, k):
        self.k = k


class ByRef:
    def __init__(self, v):
        self.v = v


class EnumSym:
    """enum value whose variant is symbolic (an Int holding the variant index)"""
    __slots__ = ('kind', 'idx')

    def __init__(self, kind, idx):
        self.kind, self.idx = kind, idx

    def discr_int(self, st, ty):
        return Int(ty if ty in INT_RANGES else 'isize', self.idx.lo, self.idx.hi, self.idx.p)


class _Havoc:
    def __repr__(self):
        return 'HAVOC'


HAVOC = _Havoc()
_LOOP_HEADS = {}
THRESHOLDS = set()


def loop_heads(fn):
    """targets of back edges in the (non-cleanup) control-flow graph of a MIR body"""
    r = _LOOP_HEADS.get(fn['id'])
    if r is not None:
        return r
    from .mir import successors
    heads = set()
    color = {}
    stack = [(0, iter(successors(fn['blocks'][0]['term'])))]
    color[0] = 1
    while stack:
        b, it = stack[-1]
        nxt = None
        for s in it:
            if s < 0 or s >= len(fn['blocks']):
                continue
            c = color.get(s, 0)
            if c == 1:
                heads.add(s)
            elif c == 0:
                nxt = s
                break
        if nxt is None:
            color[b] = 2
            stack.pop()
        else:
            color[nxt] = 1
            stack.append((nxt, iter(successors(fn['blocks'][nxt]['term']))))
    _LOOP_HEADS[fn['id']] = heads
    return heads


def _thresholds(ty):
    lo, hi = INT_RANGES[ty]
    t = set(x for x in THRESHOLDS if lo <= x <= hi and abs(x) >= 4096)      # sparse: avoid laddering through small constants
    t.update((lo, hi, 0))
    return sorted(x for x in t if lo <= x <= hi)


def widen_up(v, ty):
    for x in _thresholds(ty):
        if x >= v:
            return x
    return INT_RANGES[ty][1]


def widen_down(v, ty):
    for x in reversed(_thresholds(ty)):
        if x <= v:
            return x
    return INT_RANGES[ty][0]


def add_thresholds(consts):
    for c in consts:
        THRESHOLDS.update((c, c - 1, c + 1, 10 * c, 10 * c + 9, 10 * (c - 1) + 9))


_LIVE = {}


def _uses_defs(fn):
    """per block: (use-before-def set, def set); address-taken locals are returned separately (always live)"""
    addr = set()
    res = []

    def op_uses(o, acc):
        if isinstance(o, dict):
            pl = o.get('copy') or o.get('move')
            if pl is not None:
                acc.add(pl['local'])
                for e in pl['proj']:
                    if isinstance(e, dict) and 'index' in e:
                        acc.add(e['index'])
    for b in fn['blocks']:
        use, deff = set(), set()

        def use_(l):
            if l not in deff:
                use.add(l)
        for s in b['stmts']:
            if 'assign' not in s:
                if 'setdiscr' in s:
                    use_(s['setdiscr']['local'])
                continue
            rv = s['rv']
            acc = set()
            for k in ('use', 'l', 'r', 'x', 'repeat'):
                if k in rv:
                    op_uses(rv[k], acc)
            for o in rv.get('ops', []):
                op_uses(o, acc)
            for k in ('place', 'discr'):
                if k in rv and isinstance(rv[k], dict) and 'local' in rv[k]:
                    acc.add(rv[k]['local'])
                    if k == 'place':
                        addr.add(rv[k]['local'])
                    for e in rv[k]['proj']:
                        if isinstance(e, dict) and 'index' in e:
                            acc.add(e['index'])
            for l in acc:
                use_(l)
            pl = s['assign']
            if pl['proj']:
                use_(pl['local'])
                for e in pl['proj']:
                    if isinstance(e, dict) and 'index' in e:
                        use_(e['index'])
            else:
                deff.add(pl['local'])
        t_ = b['term']
        if isinstance(t_, dict):
            acc = set()
            for k in ('switch', 'assert'):
                if k in t_:
                    op_uses(t_[k], acc)
            for o in t_.get('ops', []) or []:
                op_uses(o, acc)
            if 'call' in t_:
                op_uses(t_['call'], acc)
                for a in t_['args']:
                    op_uses(a, acc)
            for l in acc:
                use_(l)
            if 'call' in t_:
                d = t_['dest']
                if d['proj']:
                    use_(d['local'])
                else:
                    deff.add(d['local'])
        elif t_ == 'return':
            use_(0)
        res.append((use, deff))
    return res, addr


def live_in(fn, bb):
    """locals live on entry to block bb (backward dataflow over the MIR CFG; address-taken locals are always live)"""
    key = fn['id']
    if key not in _LIVE:
        from .mir import successors
        ud, addr = _uses_defs(fn)
        n = len(fn['blocks'])
        live = [set() for _ in range(n)]
        changed = True
        while changed:
            changed = False
            for i in range(n - 1, -1, -1):
                out = set()
                for s in successors(fn['blocks'][i]['term']):
                    if 0 <= s < n:
                        out |= live[s]
                new = ud[i][0] | (out - ud[i][1])
                if new != live[i]:
                    live[i] = new
                    changed = True
        _LIVE[key] = ([l | addr for l in live], addr)
    return _LIVE[key][0][bb]
