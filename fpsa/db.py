"""Indexed view of the fact base (one configuration)."""
import re
from . import extract

INT_RANGES = {
    'i8': (-2**7, 2**7 - 1), 'u8': (0, 2**8 - 1), 'i16': (-2**15, 2**15 - 1), 'u16': (0, 2**16 - 1),
    'i32': (-2**31, 2**31 - 1), 'u32': (0, 2**32 - 1), 'i64': (-2**63, 2**63 - 1), 'u64': (0, 2**64 - 1),
    'i128': (-2**127, 2**127 - 1), 'u128': (0, 2**128 - 1), 'isize': (-2**63, 2**63 - 1),
    'usize': (0, 2**64 - 1), 'bool': (0, 1), 'char': (0, 0x10FFFF),
}
INT_TYPES9 = ['u8', 'i8', 'u16', 'i16', 'u32', 'i32', 'u64', 'i64', 'i128']


def norm_path(p):
    """printable paths: std:: / alloc:: re-exports -> core::"""
    return re.sub(r'\b(std|alloc)::', 'core::', p)


class DB:
    def __init__(self, config='default', repo=None):
        self.config = config
        self.raw, self.tree_hash = extract.load(config, repo)
        self.fns = {}
        self.items = {}
        self.adts = {}
        self.impls = {}
        self.meta = {}
        for crate, d in self.raw.items():
            self.meta[crate] = d['meta']
            for f in d['fns']:
                self.fns[f['id']] = f
            for it in d['items']:
                self.items[it['id']] = it
            for a in d['adts']:
                self.adts.setdefault(a['id'], a)
            for im in d['impls']:
                self.impls[im['id']] = im
        # impl lookup: (trait id, tuple(trait args)) -> impl
        self.impl_index = {}
        for im in self.impls.values():
            if im['trait']:
                self.impl_index[(im['trait'], tuple(strip_lt(a) for a in im['trait_args']))] = im

    # ------------------------------------------------------------ queries
    def crate_fns(self, crate):
        return [f for f in self.fns.values() if f['crate'] == crate]

    def find_impl_fn(self, trait, trait_args, name):
        """trait: canonical id (e.g. core::ops::arith::Add); trait_args: [Self, Rhs..] printed"""
        im = self.impl_index.get((trait, tuple(trait_args)))
        if not im:
            return None
        for it in im['items']:
            if it['name'] == name:
                return self.fns.get(it['id'])
        return None

    def fn_by_path_suffix(self, crate, suffix):
        r = [f for f in self.fns.values() if f['crate'] == crate and (f['id'].endswith(suffix))]
        return r

    def calls(self, fn, promoted=False):
        """yield (block index, terminator dict, callee dict) for every Call terminator"""
        for bi, b in enumerate(fn['blocks']):
            t = b['term']
            if isinstance(t, dict) and 'call' in t:
                c = t['call'].get('const')
                yield bi, t, c

    def callee_id(self, c):
        """resolved callee id (falls back to the unresolved item)"""
        if not c or 'fn' not in c:
            return None
        r = c.get('resolved')
        return (r or c)['fn']

    def callee_path(self, c):
        if not c or 'fn' not in c:
            return None
        r = c.get('resolved')
        return norm_path((r or c)['path'])


def strip_lt(s):
    """erase lifetimes in printed types: &'a Decimal -> &Decimal"""
    s = re.sub(r"&'[a-z_]+ ", '&', s)
    return s


def span_str(sp):
    if not sp:
        return '?'
    return '%s:%s' % (sp.get('cs_file') or sp.get('file'), sp.get('cs_line') or sp.get('line'))
