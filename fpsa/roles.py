"""Private functions the specs stand on, found by their ROLE rather than by their name alone.

A private helper may be renamed by a behaviour-preserving edit; the specs therefore look a function up by the name it has on the pinned tree
and, if that name is gone, by its position in the call graph below a *public* entry point together with its signature.  A role that cannot
be resolved uniquely fails closed (SystemExit), exactly like a missing root.
"""
from . import mir

ROLES = {}


def _sig(f):
    return tuple(f['locals'][1:f['arg_count'] + 1]), f['locals'][0]


def _callees(db, f):
    out = []
    for bi, t, blk in mir.iter_calls(f):
        fid = mir.callee(t)[0]
        if fid in db.fns and fid not in out:
            out.append(fid)
    # calls made inside closures of f count as f's
    for g in db.fns.values():
        if g['id'].startswith(f['id'] + '::{closure#'):
            for fid in _callees(db, g):
                if fid not in out:
                    out.append(fid)
    return out


def _unique(db, role, cands, why):
    cands = sorted(set(cands))
    if len(cands) != 1:
        raise SystemExit('fpsa: cannot identify the function playing the role %s (%s): candidates %s (fail closed)' % (role, why, cands))
    return cands[0]


def _pub(db, fid):
    f = db.fns.get(fid)
    if f is None:
        raise SystemExit('fpsa: public entry point %s not found (fail closed)' % fid)
    return f


def resolve(db, role):
    """function id playing `role` on this tree"""
    key = (id(db), role)
    if key in ROLES:
        return ROLES[key]
    r = _resolve(db, role)
    ROLES[key] = r
    return r


def fn(db, role):
    return db.fns[resolve(db, role)]


def _resolve(db, role):
    W1, W2 = 'fpdec_core::i128_shifted_div_mod_floor', 'fpdec_core::i256_div_mod_floor'
    DIVSIG = (('&mut u128', '&mut u128', 'u128'), 'u128')
    if role == 'MUL':
        name = 'fpdec_core::u128_mul_u128'
        if name in db.fns:
            return name
        c = [x for x in _callees(db, _pub(db, W1)) if x in _callees(db, _pub(db, W2)) and _sig(db.fns[x]) == (('u128', 'u128'), '(u128, u128)')]
        return _unique(db, role, c, 'called by both signed wrappers, (u128, u128) -> (u128, u128)')
    if role == 'DIV':
        name = 'fpdec_core::u256_idiv_u128'
        if name in db.fns:
            return name
        c = [x for x in _callees(db, _pub(db, W1)) if x in _callees(db, _pub(db, W2)) and _sig(db.fns[x]) == DIVSIG]
        return _unique(db, role, c, 'called by both signed wrappers, (&mut u128, &mut u128, u128) -> u128')
    if role == 'DIV64':
        name = 'fpdec_core::u256_idiv_u64'
        if name in db.fns:
            return name
        c = [x for x in _callees(db, fn(db, 'DIV')) if _sig(db.fns[x]) == (('&mut u128', '&mut u128', 'u64'), 'u128')]
        return _unique(db, role, c, 'called by the 256/128 division, (&mut u128, &mut u128, u64) -> u128')
    if role == 'SPECIAL':
        name = 'fpdec_core::u256_idiv_u128_special'
        if name in db.fns:
            return name
        c = [x for x in _callees(db, fn(db, 'DIV')) if _sig(db.fns[x]) == DIVSIG]
        return _unique(db, role, c, 'called by the 256/128 division, same signature')
    if role == 'ROUND_KERNEL':
        name = 'fpdec_core::rounding::checked_round_quot'
        if name in db.fns:
            return name
        root = _pub(db, 'fpdec_core::rounding::i128_div_rounded')
        c = [x for x in _callees(db, root) if 'RoundingMode>' in ' '.join(_sig(db.fns[x])[0]) and _sig(db.fns[x])[1].endswith('Option<i128>')]
        return _unique(db, role, c, 'called by i128_div_rounded, (.., Option<RoundingMode>) -> Option<i128>')
    if role == 'GCD':
        name = 'fpdec::as_integer_ratio::gcd_special'
        if name in db.fns:
            return name
        roots = [f for f in db.fns.values() if ((f.get('impl') or {}).get('trait') or '').endswith('AsIntegerRatio') and (f.get('impl') or {}).get('self') == 'Decimal']
        c = []
        for f in roots:
            c += [x for x in _callees(db, f) if _sig(db.fns[x]) == (('i128', 'u32'), 'i128')]
            for y in _callees(db, f):
                c += [x for x in _callees(db, db.fns[y]) if _sig(db.fns[x]) == (('i128', 'u32'), 'i128')]
        return _unique(db, role, c, 'called below the ratio methods of Decimal, (i128, u32) -> i128')
    if role in ('SKIP_ZEROES', 'ACCUM_COEFF', 'ACCUM_EXP'):
        name = {'SKIP_ZEROES': 'skip_leading_zeroes', 'ACCUM_COEFF': 'accum_coeff', 'ACCUM_EXP': 'accum_exp'}[role]
        c = [f['id'] for f in db.fns.values() if f['id'].startswith('fpdec_core::parser::') and f['name'] == name and f.get('impl')]
        if len(c) == 1:
            return c[0]
        root = _pub(db, 'fpdec_core::parser::str_to_dec')
        meth = [x for x in _callees(db, root) if db.fns[x].get('impl') and db.fns[x]['id'].startswith('fpdec_core::parser::')]

        def ok(x):
            a, r = _sig(db.fns[x])
            if not (a and a[0].startswith('&mut ')):
                return False
            if role == 'SKIP_ZEROES':
                return len(a) == 1 and r.startswith('&mut ') and not db.fns[x].get('unsafe')
            return len(a) == 2 and r == 'usize' and a[1] == ('&mut u128' if role == 'ACCUM_COEFF' else '&mut isize')
        return _unique(db, role, [x for x in meth if ok(x)], 'method of the literal scanner called by str_to_dec with the signature of %s' % name)
    if role in ('SWAR_TEST', 'SWAR_VALUE'):
        name = 'fpdec_core::parser::' + ('chunk_contains_8_digits' if role == 'SWAR_TEST' else 'chunk_to_u64')
        if name in db.fns:
            return name
        want = (('u64',), 'bool' if role == 'SWAR_TEST' else 'u64')
        c = [x for x in _callees(db, fn(db, 'ACCUM_COEFF')) if _sig(db.fns[x]) == want and x.startswith('fpdec_core::parser::')]
        return _unique(db, role, c, 'called by the coefficient scanner, %s -> %s' % want)
    raise SystemExit('fpsa: unknown role %s' % role)
