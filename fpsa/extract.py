"""Extraction of the fact base from the repository's *current* working tree.

Runs the `mirx` rustc_private driver as RUSTC_WORKSPACE_WRAPPER under
`cargo +nightly check --offline` and caches the result under
/verif/.cache/<tree-hash>/<config>/ so that the per-property commands of one
harness pass share one extraction.  A changed tree has a different hash and
is always re-extracted.  Fail closed: missing fact files or body counts below
the floors abort.
"""
import fcntl
import hashlib
import json
import os
import shutil
import subprocess
import sys
import tempfile
import time

VERIF = os.path.dirname(os.path.dirname(os.path.abspath(__file__)))
REPO = os.environ.get('FPDEC_REPO', '/repo')
CACHE = os.environ.get('FPSA_CACHE', os.path.join(VERIF, '.cache'))
DRIVER = os.path.join(VERIF, 'driver', 'target', 'release', 'mirx')

# configuration name -> (cargo args, crates expected)
CONFIGS = {
    'default': (['--workspace'], ['fpdec', 'fpdec_core', 'fpdec_macros']),
    'packed': (['-p', 'fpdec', '--features', 'packed'], ['fpdec', 'fpdec_core', 'fpdec_macros']),
    'all': (['-p', 'fpdec', '--all-features'], ['fpdec', 'fpdec_core', 'fpdec_macros']),
    'rkyv': (['-p', 'fpdec', '--features', 'rkyv'], ['fpdec', 'fpdec_core', 'fpdec_macros']),
    'num-traits': (['-p', 'fpdec', '--features', 'num-traits'], ['fpdec', 'fpdec_core', 'fpdec_macros']),
    'nostd': (['-p', 'fpdec', '--no-default-features'], ['fpdec', 'fpdec_core', 'fpdec_macros']),
    'core-nostd': (['-p', 'fpdec-core', '--no-default-features'], ['fpdec_core']),
}
# floors counted on the pinned tree (function bodies incl. closures)
FLOORS = {'fpdec': 1000, 'fpdec_core': 60, 'fpdec_macros': 1}


def tree_hash(repo=None):
    repo = repo or REPO
    h = hashlib.sha256()
    files = []
    for root, dirs, fs in os.walk(repo):
        dirs[:] = sorted(d for d in dirs if d not in ('target', '.git', 'benchmarks'))
        for f in sorted(fs):
            if f.endswith(('.rs', '.toml', '.lock', '.md')):
                files.append(os.path.join(root, f))
    for f in files:
        h.update(os.path.relpath(f, repo).encode())
        h.update(b'\0')
        with open(f, 'rb') as fh:
            h.update(fh.read())
        h.update(b'\0')
    return h.hexdigest()[:20]


def _sysroot():
    return subprocess.check_output(['rustc', '+nightly', '--print', 'sysroot'], text=True).strip()


def ensure_driver():
    if os.path.exists(DRIVER):
        return
    subprocess.check_call(['cargo', '+nightly', 'build', '--release', '--offline'],
                          cwd=os.path.join(VERIF, 'driver'),
                          env=dict(os.environ, CARGO_NET_OFFLINE='true'))


def _run_driver(config, outdir, repo):
    ensure_driver()
    args, _ = CONFIGS[config]
    tdir = os.path.join(CACHE, 'target-' + config)
    os.makedirs(tdir, exist_ok=True)
    # cargo's freshness cache would skip the wrapper: drop the fingerprints of
    # the workspace members so they are always re-checked (dependencies stay).
    fp = os.path.join(tdir, 'debug', '.fingerprint')
    if os.path.isdir(fp):
        for d in os.listdir(fp):
            if d.startswith('fpdec'):
                shutil.rmtree(os.path.join(fp, d), ignore_errors=True)
    env = dict(os.environ)
    env.update({
        'LD_LIBRARY_PATH': os.path.join(_sysroot(), 'lib') + ':' + env.get('LD_LIBRARY_PATH', ''),
        'RUSTFLAGS': '-Zmir-opt-level=0 -Awarnings',
        'RUSTC_WORKSPACE_WRAPPER': DRIVER,
        'MIRX_OUT': outdir,
        'MIRX_CONFIG': config,
        'CARGO_TARGET_DIR': tdir,
        'CARGO_NET_OFFLINE': 'true',
    })
    env.pop('RUSTC_WRAPPER', None)
    cmd = ['cargo', '+nightly', 'check', '--offline', '-q'] + args
    p = subprocess.run(cmd, cwd=repo, env=env, stdout=subprocess.PIPE, stderr=subprocess.STDOUT, text=True)
    if p.returncode != 0:
        sys.stderr.write(p.stdout[-4000:])
        raise SystemExit('fpsa: extraction failed for config %s (cargo exit %d)' % (config, p.returncode))


def facts_dir(config, repo=None):
    """Return the directory holding <crate>.json for the current tree and config."""
    repo = repo or REPO
    th = tree_hash(repo)
    with open(os.path.join(VERIF, 'driver', 'src', 'main.rs'), 'rb') as fh:
        dh = hashlib.sha256(fh.read()).hexdigest()[:8]
    d = os.path.join(CACHE, th + '-' + dh, config)
    done = os.path.join(d, 'DONE')
    if os.path.exists(done):
        return d, th
    os.makedirs(CACHE, exist_ok=True)
    with open(os.path.join(CACHE, 'lock-' + config), 'w') as lk:
        fcntl.flock(lk, fcntl.LOCK_EX)
        if os.path.exists(done):
            return d, th
        tmp = tempfile.mkdtemp(prefix='mirx-', dir=CACHE)
        try:
            _run_driver(config, tmp, repo)
            os.makedirs(d, exist_ok=True)
            _, crates = CONFIGS[config]
            for c in crates:
                cands = sorted(f for f in os.listdir(tmp) if f.startswith(c + '.') and f.endswith('.json'))
                if not cands:
                    raise SystemExit('fpsa: no fact file for crate %s in config %s' % (c, config))
                shutil.move(os.path.join(tmp, cands[0]), os.path.join(d, c + '.json'))
            with open(done, 'w') as fh:
                fh.write(time.strftime('%Y-%m-%dT%H:%M:%S'))
        finally:
            shutil.rmtree(tmp, ignore_errors=True)
        _gc(th + '-' + dh)
    return d, th


def _gc(keep):
    """keep the cache small: drop fact directories of other trees (older than 2 h)."""
    now = time.time()
    for e in os.listdir(CACHE):
        p = os.path.join(CACHE, e)
        if e == keep or not os.path.isdir(p) or e.startswith('target-') or e.startswith('mirx-'):
            continue
        try:
            if now - os.path.getmtime(p) > 7200:
                shutil.rmtree(p, ignore_errors=True)
        except OSError:
            pass


def load(config='default', repo=None):
    d, th = facts_dir(config, repo)
    _, crates = CONFIGS[config]
    out = {}
    for c in crates:
        with open(os.path.join(d, c + '.json')) as fh:
            out[c] = json.load(fh)
        n = len(out[c]['fns'])
        if n < FLOORS[c] - (10 if config == 'core-nostd' else 0):
            raise SystemExit('fpsa: crate %s has %d bodies, floor is %d (fail closed)' % (c, n, FLOORS[c]))
    return out, th


if __name__ == '__main__':
    cfgs = sys.argv[1:] or ['default']
    for c in cfgs:
        t0 = time.time()
        f, th = load(c)
        print(c, th, {k: len(v['fns']) for k, v in f.items()}, '%.1fs' % (time.time() - t0))
