"""Shared helpers for the Engine-B specifications: cells, roots, parallel job execution."""
import multiprocessing as mp
import os

from .absint import Agg, Int, K, Interp, Opts, ByRef, OPTION, RESULT
from .db import DB, INT_RANGES, INT_TYPES9
from .poly import padd, patom, pconst, pmul, pscale, pfreeze, pis_const

M = 2**127 - 1
DEC = 'fpdec::Decimal'

T_ADD = 'core::ops::arith::Add'
T_SUB = 'core::ops::arith::Sub'
T_MUL = 'core::ops::arith::Mul'
T_DIV = 'core::ops::arith::Div'
T_REM = 'core::ops::arith::Rem'
T_CADD = 'fpdec::binops::checked_add_sub::CheckedAdd'
T_CSUB = 'fpdec::binops::checked_add_sub::CheckedSub'
T_CMUL = 'fpdec::binops::checked_mul::CheckedMul'
T_CDIV = 'fpdec::binops::checked_div::CheckedDiv'
T_CREM = 'fpdec::binops::checked_rem::CheckedRem'
T_DIVR = 'fpdec::binops::div_rounded::DivRounded'
T_MULR = 'fpdec::binops::mul_rounded::MulRounded'

SCALES_QUICK = [0, 1, 9, 17, 18]
SCALES_ALL = list(range(19))


_LAYOUT = {}


def dec_layout(adt=DEC):
    """(index of the i128 coefficient field, index of the u8 scale field) of Decimal / ArchivedDecimal - by type, not by position or name"""
    if adt not in _LAYOUT:
        db = None
        for d in _DBS.values():
            if adt in d.adts:
                db = d
        if db is None:
            db = get_db()
        a = db.adts.get(adt)
        if a is None:
            _LAYOUT[adt] = (0, 1)
        else:
            fs = a['variants'][0]['fields']
            ci = [i for i, f in enumerate(fs) if f['ty'].endswith('i128') or 'i128 as' in f['ty']]
            si = [i for i, f in enumerate(fs) if f['ty'].endswith('u8') or 'u8 as' in f['ty']]
            if len(fs) != 2 or len(ci) != 1 or len(si) != 1:
                raise SystemExit('fpsa: %s is no longer a pair of an i128 coefficient and a u8 scale: %s (fail closed)' % (adt, fs))
            _LAYOUT[adt] = (ci[0], si[0])
    return _LAYOUT[adt]


class DecAgg(Agg):
    """abstract Decimal whose .fields are always presented as (coefficient, scale) to the specifications"""
    __slots__ = ()


def dec_val(st, name, scale, lo=-M, hi=M, cong=None, adt=DEC):
    ci, si = dec_layout(adt)
    f = [None, None]
    f[ci] = st.sym(name, lo, hi, 'i128', cong)
    f[si] = K(scale, 'u8')
    return Agg(adt, 0, f)


def dec_coeff(v):
    ci, si = dec_layout(v.kind)
    return v.fields[ci]


def int_val(st, name, ty, lo=None, hi=None):
    rlo, rhi = INT_RANGES[ty]
    lo = rlo if lo is None else max(lo, rlo)
    hi = rhi if hi is None else min(hi, rhi)
    return st.sym(name, lo, hi, ty)


def dec_parts(v):
    """(coeff Int, scale Int) of an abstract Decimal"""
    if not (isinstance(v, Agg) and v.kind == DEC and len(v.fields) == 2):
        return None
    ci, si = dec_layout(DEC)
    return v.fields[ci], v.fields[si]


def opt_parts(v):
    """('none',) / ('some', payload) / None if not an Option"""
    if isinstance(v, Agg) and v.kind == OPTION:
        return ('none',) if v.variant == 0 else ('some', v.fields[0])
    return None


def poly_eq(st, p, q):
    """p == q on path st: syntactically after normalisation, or by the recorded facts"""
    d = st.norm(padd(p, q, -1))
    if pis_const(d) is not None:
        return pis_const(d) == 0
    return st.sign(d) == frozenset((0,))


def show_poly(st, p):
    return st.atoms.pstr(st.norm(dict(p) if not isinstance(p, dict) else p))


def show_outcome(o):
    st = o.state
    if o.kind == 'ret':
        return 'ret %s' % show_value(st, o.value)
    if o.kind == 'panic':
        info = dict(o.info or {})
        if 'term' in info:
            info['term'] = show_poly(st, dict(info['term']))
        return 'panic %s %s at %s' % (o.value, info, o.site)
    return 'unknown(%s) at %s' % (o.info, o.site)


def show_value(st, v):
    if isinstance(v, Int):
        lo, hi = v.lo, v.hi
        return '%s{%s in [%s,%s]}' % (v.ty, show_poly(st, v.p), lo, hi)
    if isinstance(v, Agg):
        return '%s#%s(%s)' % (v.kind.rsplit('::', 1)[-1], v.variant, ', '.join(show_value(st, f) for f in v.fields))
    return repr(v)


def notes_of(o, kind):
    return [n for n in o.state.notes if n[0] == kind]


# ----------------------------------------------------------------------------- parallel jobs
_DBS = {}
_SPEC = None


def get_db(config='default'):
    if config not in _DBS:
        _DBS[config] = DB(config)
    return _DBS[config]


def _worker(chunk):
    mod, jobs = chunk
    import importlib
    m = importlib.import_module(mod)
    out = []
    for j in jobs:
        try:
            out.extend(m.run_job(j))
        except BaseException as e:   # fail closed: an analyser crash (or a fail-closed SystemExit: it would kill the pool worker and hang the pool) is an undischarged obligation
            import traceback
            if isinstance(e, KeyboardInterrupt):
                raise
            out.append(('ENGINE', 'crash;%s' % (j,), False, 'analyser exception: %s\n%s' % (e, traceback.format_exc()[-1500:]), None))
    return out


def is_heavy(job):
    """jobs that take seconds each (the Knuth-D cells): scheduled first, one per chunk"""
    def walk(j):
        return isinstance(j, tuple) and (j[:2] == ('U', 'special') or any(walk(x) for x in j))
    return walk(job)


def split_chunks(jobs, nproc, chunk, wrap):
    heavy = [j for j in jobs if is_heavy(j)]
    light = [j for j in jobs if not is_heavy(j)]
    chunk = chunk or max(1, min(16, len(light) // (nproc * 8) or 1))
    return [wrap([j]) for j in heavy] + [wrap(light[i:i + chunk]) for i in range(0, len(light), chunk)]


FAIL_FAST = 40


def run_jobs(rep, modname, jobs, nproc=None, chunk=None):
    """run spec jobs in worker processes; every job yields obligations (rule, key, ok, detail, site)"""
    jobs = list(jobs)
    if not jobs:
        return
    nproc = nproc or min(16, os.cpu_count() or 4)
    if rep.only_key or len(jobs) < 8 or nproc == 1:
        res = [_worker((modname, jobs))]
    else:
        chunks = split_chunks(jobs, nproc, chunk, lambda js: (modname, js))
        ctx = mp.get_context('fork')
        res = []
        nfail = 0
        done = 0
        with ctx.Pool(nproc) as pool:
            # results are consumed as they arrive: on a tree that breaks the property in many cells (where cells may also run into the step budget, i.e. are
            # slow) the run stops once FAIL_FAST obligations have failed - the verdict is settled, replay files are written for the first 25 anyway
            for r in pool.imap_unordered(_worker, chunks, chunksize=1):
                res.append(r)
                done += 1
                nfail += sum(1 for ob in r if not ob[2])
                if nfail >= FAIL_FAST and done < len(chunks):
                    pool.terminate()
                    rep.cut_short = getattr(rep, 'cut_short', 0) + (len(chunks) - done)
                    break
    for r in res:
        for (rule, key, ok, detail, site) in r:
            rep.ob(rule, key, ok, detail, site)


def find_root(db, trait, targs, name):
    fn = db.find_impl_fn(trait, targs, name)
    if fn is None:
        raise SystemExit('fpsa: root not found: %s<%s>::%s (fail closed)' % (trait, targs, name))
    return fn


def split_bool(o):
    """split an outcome returning an undecided bool into (truth, state) pairs"""
    from .absint import Infeasible, ALL
    v = o.value
    st = o.state
    lo, hi = st.itv(v)
    if lo == hi:
        return [(bool(lo), st)]
    c = v.cond
    if c is None or c[0] != 'sign':
        return None
    res = []
    for truth, signs in ((True, c[2]), (False, ALL - c[2])):
        s2 = st.clone()
        try:
            s2.assume(c[1], signs)
            res.append((truth, s2))
        except Infeasible:
            pass
    return res


def query_trem(st, xp, c):
    """sign set of the truncated remainder of xp by the positive constant c on this path, without forking;
    None if the analysis never formed that division"""
    from .absint import ALL
    p = st.norm(xp)
    if all(v % c == 0 for v in p.values()):
        return frozenset((0,)), None
    cv = pis_const(p)
    if cv is not None:
        r = abs(cv) % c
        return frozenset(((r > 0) * (1 if cv > 0 else -1),)), None
    for cand in (xp, p):
        a = st.atoms.lookup(('tdiv', pfreeze(cand), pfreeze(pconst(c))))
        if a is not None:
            R = padd(cand, pscale(patom(a), c), -1)
            return st.sign(R), patom(a)
    m, r = st.cong_poly(p)
    if m > 1 and m % c == 0:
        return (frozenset((0,)) if r % c == 0 else frozenset((-1, 1))), None
    return None, None


def res_parts(v):
    if isinstance(v, Agg) and v.kind == RESULT:
        return ('ok' if v.variant == 0 else 'err', v.fields[0])
    return None


def variant_name(db, v):
    adt = db.adts.get(v.kind)
    if adt:
        for var in adt['variants']:
            if var['index'] == v.variant:
                return var['name']
    return '?'


def map_jobs(fn_name, modname, jobs, nproc=None, chunk=None):
    """generic parallel map: calls modname.fn_name(chunk of jobs) in worker processes, returns the list of results"""
    import importlib
    jobs = list(jobs)
    nproc = nproc or min(16, os.cpu_count() or 4)
    chunks = split_chunks(jobs, nproc, chunk, lambda js: (fn_name, modname, js))
    if len(jobs) < 8 or nproc == 1:
        return [_map_worker(c) for c in chunks]
    ctx = mp.get_context('fork')
    with ctx.Pool(nproc) as pool:
        return pool.map(_map_worker, chunks, chunksize=1)


def _map_worker(c):
    import importlib
    fn_name, modname, jobs = c
    try:
        return getattr(importlib.import_module(modname), fn_name)(jobs)
    except SystemExit as e:          # would kill the pool worker and hang the pool
        raise RuntimeError('worker exit: %s' % (e,))
