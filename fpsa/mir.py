"""Small utilities over MIR-lite bodies: iteration, def-use, origin tracing."""


def op_place(o):
    """place of a copy/move operand or None"""
    if isinstance(o, dict):
        return o.get('copy') or o.get('move')
    return None


def op_const(o):
    if isinstance(o, dict):
        return o.get('const')
    return None


def blocks(body):
    return body['blocks']


def iter_stmts(body):
    for bi, b in enumerate(body['blocks']):
        for si, st in enumerate(b['stmts']):
            yield bi, si, st


def iter_terms(body):
    for bi, b in enumerate(body['blocks']):
        yield bi, b['term'], b


def iter_calls(body):
    for bi, t, b in iter_terms(body):
        if isinstance(t, dict) and 'call' in t:
            yield bi, t, b


def callee(t):
    """(resolved id, normalised printable path, generic args) of a call terminator"""
    c = t['call'].get('const') if isinstance(t['call'], dict) else None
    if not c or 'fn' not in c:
        return None, None, None
    r = c.get('resolved') or c
    from .db import norm_path
    return r['fn'], norm_path(r['path']), r.get('args', [])


def callee_unresolved(t):
    c = t['call'].get('const') if isinstance(t['call'], dict) else None
    if not c or 'fn' not in c:
        return None
    return c['fn']


def reachable_blocks(body, include_cleanup=False):
    """indices of blocks reachable from bb0 along normal (non-unwind) edges"""
    seen = set()
    work = [0]
    while work:
        b = work.pop()
        if b in seen or b < 0 or b >= len(body['blocks']):
            continue
        seen.add(b)
        t = body['blocks'][b]['term']
        work.extend(successors(t))
    return seen


def successors(t):
    if not isinstance(t, dict):
        return []
    if 'goto' in t:
        return [t['goto']]
    if 'switch' in t:
        return [a[1] for a in t['arms']] + [t['otherwise']]
    if 'call' in t:
        return [t['target']] if t['target'] >= 0 else []
    if 'assert' in t:
        return [t['target']]
    return []


class DefUse:
    """definitions of whole locals in one body (assignments with empty projection and call destinations)"""

    def __init__(self, body):
        self.body = body
        self.defs = {}      # local -> list of ('assign', rv, span) | ('call', term, span)
        self.partial = set()   # locals written through a projection
        live = reachable_blocks(body)
        for bi, b in enumerate(body['blocks']):
            if bi not in live:
                continue
            for st in b['stmts']:
                if 'assign' in st:
                    pl = st['assign']
                    if pl['proj']:
                        if pl['proj'][0] != 'deref':
                            self.partial.add(pl['local'])
                    else:
                        self.defs.setdefault(pl['local'], []).append(('assign', st['rv'], st.get('span')))
                elif 'setdiscr' in st:
                    self.partial.add(st['setdiscr']['local'])
            t = b['term']
            if isinstance(t, dict) and 'call' in t:
                d = t['dest']
                if d['proj']:
                    if d['proj'][0] != 'deref':
                        self.partial.add(d['local'])
                else:
                    self.defs.setdefault(d['local'], []).append(('call', t, b.get('tspan')))

    def single_def(self, local):
        d = self.defs.get(local, [])
        if len(d) == 1 and local not in self.partial:
            return d[0]
        return None


def origin(body, operand, du=None, depth=0, maxdepth=24):
    """Backward expression tree of an operand (intra-procedural, through
    single-definition locals).  Node kinds:
      ('param', i, proj) ('const', c) ('call', fn_id, path, [args]) ('agg', kind, [ops])
      ('ref', node) ('deref', node) ('field', i, node) ('binop', op, l, r) ('unop', op, x)
      ('cast', kind, x, to) ('discr', node) ('local', l)  -- multiple definitions / unknown
    """
    du = du or DefUse(body)
    if depth > maxdepth:
        return ('deep',)
    c = op_const(operand)
    if c is not None:
        return ('const', c)
    pl = op_place(operand)
    if pl is None:
        return ('unknown', operand)
    return origin_place(body, pl, du, depth, maxdepth)


def origin_place(body, pl, du, depth, maxdepth=24):
    base = origin_local(body, pl['local'], du, depth + 1, maxdepth)
    for e in pl['proj']:
        if e == 'deref':
            if base[0] == 'ref':
                base = base[1]
            else:
                base = ('deref', base)
        elif isinstance(e, dict) and 'field' in e:
            if base[0] == 'agg' and e['field'] < len(base[2]):
                base = base[2][e['field']]
            else:
                base = ('field', e['field'], base)
        elif isinstance(e, dict) and 'downcast' in e:
            base = ('downcast', e['downcast'], base)
        else:
            base = ('proj', str(e), base)
    return base


def origin_local(body, local, du, depth, maxdepth=24):
    if 1 <= local <= body['arg_count']:
        # parameters may be reassigned (mut params); treat as param only when never redefined
        if local not in du.defs and local not in du.partial:
            return ('param', local)
    d = du.single_def(local)
    if d is None:
        return ('local', local)
    if d[0] == 'call':
        t = d[1]
        fid, path, gargs = callee(t)
        args = [origin(body, a, du, depth + 1, maxdepth) for a in t['args']]
        return ('call', fid, path, args)
    rv = d[1]
    if 'use' in rv:
        return origin(body, rv['use'], du, depth + 1, maxdepth)
    if 'ref' in rv or 'rawptr' in rv:
        inner = origin_place(body, rv['place'], du, depth + 1, maxdepth)
        if inner[0] == 'deref':
            return inner[1]          # reborrow &*x is x
        return ('ref', inner)
    if 'agg' in rv:
        return ('agg', rv['agg'], [origin(body, o, du, depth + 1, maxdepth) for o in rv['ops']])
    if 'binop' in rv:
        return ('binop', rv['binop'], origin(body, rv['l'], du, depth + 1, maxdepth), origin(body, rv['r'], du, depth + 1, maxdepth))
    if 'unop' in rv:
        return ('unop', rv['unop'], origin(body, rv['x'], du, depth + 1, maxdepth))
    if 'cast' in rv:
        return ('cast', rv['cast'], origin(body, rv['x'], du, depth + 1, maxdepth), rv['to'])
    if 'discr' in rv:
        return ('discr', origin_place(body, rv['discr'], du, depth + 1, maxdepth))
    if 'tlsref' in rv:
        return ('tlsref', rv['tlsref'])
    return ('rv', str(rv)[:80])


def walk(node):
    """pre-order traversal of an origin tree"""
    yield node
    for x in node[1:]:
        if isinstance(x, tuple):
            yield from walk(x)
        elif isinstance(x, list):
            for y in x:
                if isinstance(y, tuple):
                    yield from walk(y)


def consts_in_body(body):
    """all constant operands in a body (statements and terminators)"""
    out = []

    def visit(o):
        if isinstance(o, dict):
            if 'const' in o and isinstance(o['const'], dict):
                out.append(o['const'])
            for v in o.values():
                visit(v)
        elif isinstance(o, list):
            for v in o:
                visit(v)
    for b in body['blocks']:
        for st in b['stmts']:
            visit(st.get('rv'))
        visit(b['term'])
    return out


def aggregates_in_body(body):
    out = []
    for bi, si, st in iter_stmts(body):
        rv = st.get('rv')
        if rv and 'agg' in rv:
            out.append((bi, si, rv, st.get('span')))
    return out
