"""Polynomial terms over interned atoms (the 'term' component of the value domain).

A polynomial is a dict {monomial: coeff}; a monomial is a sorted tuple of atom
ids (repetition = power); () is the constant monomial.  The mathematical value
of a term equals the run-time value of the abstract integer it is attached to;
machine operations keep a term only when the interval component proves that
the operation did not wrap.
"""
from math import gcd


def pconst(c):
    return {(): c} if c else {}


def patom(a):
    return {(a,): 1}


def padd(p, q, k=1):
    r = dict(p)
    for m, c in q.items():
        v = r.get(m, 0) + k * c
        if v:
            r[m] = v
        else:
            r.pop(m, None)
    return r


def pscale(p, c):
    if c == 0:
        return {}
    return {m: v * c for m, v in p.items()}


def pmul(p, q):
    r = {}
    for m1, c1 in p.items():
        for m2, c2 in q.items():
            m = tuple(sorted(m1 + m2))
            v = r.get(m, 0) + c1 * c2
            if v:
                r[m] = v
            else:
                r.pop(m, None)
    return r


def pneg(p):
    return {m: -v for m, v in p.items()}


def pis_const(p):
    """constant value or None"""
    if not p:
        return 0
    if len(p) == 1 and () in p:
        return p[()]
    return None


def pfreeze(p):
    return tuple(sorted(p.items()))


def pthaw(fp):
    return dict(fp)


def patoms(p):
    s = set()
    for m in p:
        s.update(m)
    return s


def pdegree(p):
    return max((len(m) for m in p), default=0)


def pcanon(p):
    """(frozen primitive poly with positive leading coefficient, flip) - flip is -1 if the sign was inverted.
    The constant term is kept (facts are about the sign of the whole form)."""
    if not p:
        return (), 1
    g = 0
    for v in p.values():
        g = gcd(g, abs(v))
    items = sorted(p.items())
    # leading = first non-constant monomial if any, else the constant
    lead = None
    for m, v in items:
        if m != ():
            lead = v
            break
    if lead is None:
        lead = items[0][1]
    flip = 1 if lead > 0 else -1
    return tuple((m, (v // g) * flip) for m, v in items), flip


def plinear_single(p):
    """if p == c*a + k for a single atom a (degree 1): (a, c, k) else None"""
    a = None
    c = 0
    k = 0
    for m, v in p.items():
        if m == ():
            k = v
        elif len(m) == 1 and a is None:
            a, c = m[0], v
        else:
            return None
    if a is None:
        return None
    return a, c, k


def cstr(v):
    """compact constant: k*2^e for large multiples of powers of two"""
    if abs(v) < 2**32:
        return str(v)
    e = (v & -v).bit_length() - 1
    k = v >> e
    if e >= 16:
        return ('2^%d' % e) if k == 1 else ('-2^%d' % e if k == -1 else '%d*2^%d' % (k, e))
    for d in (1, -1, 2, -2):
        w = v + d
        e = (w & -w).bit_length() - 1
        if e >= 32 and abs(w >> e) < 2**16:
            return '(%s%+d)' % (cstr(w), -d)
    return str(v)


class Atoms:
    """intern table of atoms; descriptors are hashable tuples"""

    def __init__(self):
        self.desc = []
        self.index = {}
        self.cond = {}      # boolean atoms: atom -> ('sign', poly, signs-when-true)

    def get(self, desc):
        i = self.index.get(desc)
        if i is None:
            i = len(self.desc)
            self.desc.append(desc)
            self.index[desc] = i
        return i

    def lookup(self, desc):
        return self.index.get(desc)

    def fresh(self, tag):
        i = len(self.desc)
        self.desc.append(('fresh', tag, i))
        return i

    short = False           # diagnostics: print compound atoms as t<index> (see legend())

    def legend(self, p, seen=None):
        """definitions of the compound atoms occurring in p (for short mode)"""
        seen = {} if seen is None else seen
        for m in p:
            for a in m:
                d = self.desc[a]
                if a in seen or d[0] not in ('tdiv', 'fdiv'):
                    continue
                seen[a] = None
                self.legend(pthaw(d[1]), seen)
                self.legend(pthaw(d[2]), seen)
                seen[a] = '%s(%s, %s)' % (d[0], self.pstr(pthaw(d[1])), self.pstr(pthaw(d[2])))
        return seen

    def name(self, a):
        d = self.desc[a]
        if self.short and d[0] in ('tdiv', 'fdiv'):
            return 't%d' % a
        if d[0] == 'sym':
            return d[1]
        if d[0] == 'fresh':
            return '%s#%d' % (d[1], a)
        if d[0] in ('tdiv', 'fdiv'):
            return '%s(%s, %s)' % (d[0], self.pstr(pthaw(d[1])), self.pstr(pthaw(d[2])))
        if d[0] == 'rnd':
            return 'Rnd[%s](%s / %s)' % (d[3], self.pstr(pthaw(d[1])), self.pstr(pthaw(d[2])))
        return '%s%s' % (d[0], d[1:])

    def pstr(self, p):
        if not p:
            return '0'
        parts = []
        for m, v in sorted(p.items()):
            if m == ():
                parts.append(str(v))
            else:
                ms = '*'.join(self.name(a) for a in m)
                parts.append(ms if v == 1 else ('-' + ms if v == -1 else '%s*%s' % (cstr(v) if self.short else v, ms)))
        return ' + '.join(parts).replace('+ -', '- ')
