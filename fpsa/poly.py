"""Polynomial terms over interned atoms (the 'term' component of the value domain).

A polynomial is a dict {monomial: coeff}; a monomial is a sorted tuple of atom
ids (repetition = power); () is the constant monomial.  The mathematical value
of a term equals the run-time value of the abstract integer it is attached to;
machine operations keep a term only when the interval component proves that
the operation did not wrap.
"""
from math import gcd


def pconst(c):
    return {(): c} if c else {}


def patom(a):
    return {(a,): 1}


def padd(p, q, k=1):
    r = dict(p)
    for m, c in q.items():
        v = r.get(m, 0) + k * c
        if v:
            r[m] = v
        else:
            r.pop(m, None)
    return r


def pscale(p, c):
    if c == 0:
        return {}
    return {m: v * c for m, v in p.items()}


def pmul(p, q):
    r = {}
    for m1, c1 in p.items():
        for m2, c2 in q.items():
            m = tuple(sorted(m1 + m2))
            v = r.get(m, 0) + c1 * c2
            if v:
                r[m] = v
            else:
                r.pop(m, None)
    return r


def pneg(p):
    return {m: -v for m, v in p.items()}


def pis_const(p):
    """constant value or None"""
    if not p:
        return 0
    if len(p) == 1 and () in p:
        return p[()]
    return None


def pfreeze(p):
    return tuple(sorted(p.items()))


def pthaw(fp):
    return dict(fp)


def patoms(p):
    s = set()
    for m in p:
        s.update(m)
    return s


def pdegree(p):
    return max((len(m) for m in p), default=0)


def pcanon(p):
    """(frozen primitive poly with positive leading coefficient, flip) - flip is -1 if the sign was inverted.
    The constant term is kept (facts are about the sign of the whole form)."""
    if not p:
        return (), 1
    g = 0
    for v in p.values():
        g = gcd(g, abs(v))
    items = sorted(p.items())
    # leading = first non-constant monomial if any, else the constant
    lead = None
    for m, v in items:
        if m != ():
            lead = v
            break
    if lead is None:
        lead = items[0][1]
    flip = 1 if lead > 0 else -1
    return tuple((m, (v // g) * flip) for m, v in items), flip


def plinear_single(p):
    """if p == c*a + k for a single atom a (degree 1): (a, c, k) else None"""
    a = None
    c = 0
    k = 0
    for m, v in p.items():
        if m == ():
            k = v
        elif len(m) == 1 and a is None:
            a, c = m[0], v
        else:
            return None
    if a is None:
        return None
    return a, c, k


class Atoms:
    """intern table of atoms; descriptors are hashable tuples"""

    def __init__(self):
        self.desc = []
        self.index = {}
        self.cond = {}      # boolean atoms: atom -> ('sign', poly, signs-when-true)

    def get(self, desc):
        i = self.index.get(desc)
        if i is None:
            i = len(self.desc)
            self.desc.append(desc)
            self.index[desc] = i
        return i

    def lookup(self, desc):
        return self.index.get(desc)

    def fresh(self, tag):
        i = len(self.desc)
        self.desc.append(('fresh', tag, i))
        return i

    def name(self, a):
        d = self.desc[a]
        if d[0] == 'sym':
            return d[1]
        if d[0] == 'fresh':
            return '%s#%d' % (d[1], a)
        if d[0] in ('tdiv', 'fdiv'):
            return '%s(%s, %s)' % (d[0], self.pstr(pthaw(d[1])), self.pstr(pthaw(d[2])))
        if d[0] == 'rnd':
            return 'Rnd[%s](%s / %s)' % (d[3], self.pstr(pthaw(d[1])), self.pstr(pthaw(d[2])))
        return '%s%s' % (d[0], d[1:])

    def pstr(self, p):
        if not p:
            return '0'
        parts = []
        for m, v in sorted(p.items()):
            if m == ():
                parts.append(str(v))
            else:
                ms = '*'.join(self.name(a) for a in m)
                parts.append(ms if v == 1 else ('-' + ms if v == -1 else '%d*%s' % (v, ms)))
        return ' + '.join(parts).replace('+ -', '- ')
