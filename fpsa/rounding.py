"""Rounding oracle (Appendix A.1), proved summaries of the rounding helpers, summaries U of the unsigned kernels (proved in C16: U-KERNEL).

`check_rounded` decides, from the facts of one abstract path, whether a value V
is RoundSpec(mode, N/D): it recovers the floor quotient candidate FQ in {V, V-1}
with 0 <= N - FQ*D < D and evaluates the mode table on the path's facts.  A
fact the table needs but the path never established makes the check fail
(fail closed): a kernel that returns without examining a needed condition is wrong.
"""
from .absint import (Agg, Int, K, OPTION, none, some, PanicExc, Stop, Infeasible, NEG, ZERO, POS, NONNEG, NONPOS, NONZERO, ALL)
from .harness import query_trem
from .poly import padd, patom, pconst, pfreeze, pis_const, pmul, pneg, pscale, pthaw

RM_ADT = 'fpdec_core::rounding::RoundingMode'
MODES = ['Round05Up', 'RoundCeiling', 'RoundDown', 'RoundFloor', 'RoundHalfDown', 'RoundHalfEven', 'RoundHalfUp', 'RoundUp']


def mode_names(db):
    return {v['index']: v['name'] for v in db.adts[RM_ADT]['variants']}


class Undecided(Exception):
    pass


def _one(s, what):
    if len(s) != 1:
        raise Undecided(what)
    return next(iter(s))


def round_inc(mode, st, FQ, FR, D):
    """increment (0/1) that RoundSpec prescribes, evaluated on the facts of path `st`"""
    sr = st.sign(FR)
    if sr == ZERO:
        return 0
    if 0 in sr and mode in ('RoundHalfUp', 'RoundHalfDown', 'RoundHalfEven'):
        # a zero remainder is "below half" as well: if the path establishes 2*rem < divisor the increment is 0 either way
        if st.sign(padd(pscale(FR, 2), D, -1)) <= NEG:
            return 0
    if 0 in sr:
        raise Undecided('whether the remainder is zero')

    def nn():
        s = st.sign(FQ)
        if s <= NONNEG:
            return True
        if s <= NEG:
            return False
        raise Undecided('sign of the quotient')

    def half():
        return _one(st.sign(padd(pscale(FR, 2), D, -1)), 'ordering of 2*rem and divisor')
    if mode == 'RoundFloor':
        return 0
    if mode == 'RoundCeiling':
        return 1
    if mode == 'RoundDown':
        return 0 if nn() else 1
    if mode == 'RoundUp':
        return 1 if nn() else 0
    if mode in ('RoundHalfUp', 'RoundHalfDown', 'RoundHalfEven'):
        h = half()
        if h > 0:
            return 1
        if h < 0:
            return 0
        if mode == 'RoundHalfUp':
            return 1 if nn() else 0
        if mode == 'RoundHalfDown':
            return 0 if nn() else 1
        sg, _ = query_trem(st, FQ, 2)
        if sg is None or (0 in sg and len(sg) > 1):
            raise Undecided('parity of the quotient')
        return 0 if sg == ZERO else 1
    if mode == 'Round05Up':
        n = nn()
        t = FQ if n else padd(FQ, pconst(1))
        sg, _ = query_trem(st, t, 5)
        if sg is None or (0 in sg and len(sg) > 1):
            raise Undecided('last digit (mod 5) of the value rounded towards zero')
        if sg == ZERO:
            return 1 if n else 0
        return 0 if n else 1
    raise Undecided('mode %s' % mode)


def check_rounded(st, V, N, D, mode):
    """(ok, message): is the polynomial value V equal to RoundSpec(mode, N/D) on path st?  Requires D > 0 on the path."""
    if not st.sign(D) <= POS:
        return False, 'divisor not known positive'
    V = st.norm(V)
    msgs = []
    for cand in (V, padd(V, pconst(1), -1)):
        FR = st.norm(padd(N, pmul(cand, D), -1))
        s0 = st.sign(FR)
        s1 = st.sign(padd(FR, D, -1))
        if s0 <= NONNEG and s1 <= NEG:
            try:
                inc = round_inc(mode, st, cand, FR, D)
            except Undecided as u:
                return False, 'path does not determine %s' % u
            want = padd(cand, pconst(inc))
            d = st.norm(padd(V, want, -1))
            if pis_const(d) == 0 or (pis_const(d) is None and st.sign(d) == ZERO):
                return True, 'floor quotient %s, increment %d' % (st.atoms.pstr(cand), inc)
            return False, 'returns %s but RoundSpec(%s) = %s + %d' % (st.atoms.pstr(V), mode, st.atoms.pstr(cand), inc)
        msgs.append('cand %s: rem sign %s, rem-div sign %s' % (st.atoms.pstr(cand), sorted(s0), sorted(s1)))
    return False, 'neither V nor V-1 is provably the floor quotient of N/D (%s)' % '; '.join(msgs)


# ----------------------------------------------------------------------------- summaries used at call sites
def mode_key(I, v):
    """'thread' for None, the variant name for Some(mode)"""
    if isinstance(v, Agg) and v.kind == OPTION:
        if v.variant == 0:
            return 'thread'
        m = v.fields[0]
        if isinstance(m, Agg) and m.variant is not None:
            return mode_names(I.db)[m.variant]
    raise Stop('rounding mode argument %r' % (v,))


def rnd_atom(I, st, N, D, mk):
    """the term Rnd[mk](N/D) with D > 0 decided on this path; interval from the operand intervals"""
    N, D = st.norm(N), st.norm(D)
    a = st.atoms.get(('rnd', pfreeze(N), pfreeze(D), mk))
    nlo, nhi = st.range_of(N)
    dlo, dhi = st.range_of(D)
    if None not in (nlo, nhi, dlo, dhi) and dlo > 0:
        cands = [nlo // dlo, nlo // dhi, nhi // dlo, nhi // dhi]
        lo, hi = min(cands), max(cands) + 1
        old = st.bounds.get(a)
        if old is not None:
            lo, hi = max(lo, old[0]), min(hi, old[1])
        st._jset('bounds', a, (lo, hi))
    return patom(a)


def summ_default_mode(I, st, args, fid):
    """<RoundingMode as Default>::default(): the calling thread's mode (body checked by C19's R-TLS rules)"""
    if I.opts.mode is None:
        raise Stop('thread rounding mode is symbolic here')
    return Agg(RM_ADT, I.opts.mode, ())


def summ_i128_div_rounded(I, st, args, fid):
    """(R) i128_div_rounded(x, y, m) = RoundSpec(m, x/y); y == 0 panics (DivisionByZero); x == i128::MIN, y == -1 panics (division overflow)"""
    x, y, m = args
    sy = st.decide(y.p, [NEG, ZERO, POS])
    if sy == 1:
        raise PanicExc('DivisionByZero', {'fn': fid})
    N, D = x.p, y.p
    if sy == 0:
        if st.in_range(x.p, -(2**127 - 1), 2**127 - 1) is not True and 0 in st.sign(padd(y.p, pconst(1))):
            k = st.choose(2)
            if k == 1:
                st.assume(padd(x.p, pconst(-(2**127)), -1), ZERO)
                st.assume(padd(y.p, pconst(1)), ZERO)
                raise PanicExc('Overflow', {'fn': fid, 'op': 'Div', 'assert': 'Overflow'})
            # otherwise: not (x == MIN and y == -1); keep both as they are (the quotient fits)
        N, D = pneg(N), pneg(D)
    p = rnd_atom(I, st, N, D, mode_key(I, m))
    return I.mk(st, 'i128', p)


def match_rnd(st, p, raw=False):
    """decompose p == mult * Rnd[mk](N/D): (mult, N, D, mk) or None"""
    if not raw:
        p = st.norm(p)
    if len(p) != 1:
        return None
    (mono, c), = p.items()
    if len(mono) != 1:
        return None
    d = st.atoms.desc[mono[0]]
    if d[0] != 'rnd':
        return None
    return c, pthaw(d[1]), pthaw(d[2]), d[3]


def expect_rnd(st, p, En, Ed, mk='thread', mult=1, raw=False):
    """(ok, msg): p is mult * Rnd[mk](En/Ed) (compared as cross-multiplied polynomial forms, denominators positive)"""
    m = match_rnd(st, p, raw)
    if m is None:
        return False, 'value %s is not a single rounded term' % st.atoms.pstr(st.norm(p))
    c, N, D, k = m
    if k != mk:
        return False, 'rounded under %s, expected %s' % (k, mk)
    if c != mult:
        return False, 'multiplier %s, expected %s' % (c, mult)
    if not (st.sign(D) <= POS and st.sign(Ed) <= POS):
        return False, 'denominator sign unknown'
    lhs = st.norm(pmul(N, Ed))
    rhs = st.norm(pmul(En, D))
    if pis_const(st.norm(padd(lhs, rhs, -1))) != 0:
        return False, 'rounds %s / %s, expected %s / %s' % (st.atoms.pstr(N), st.atoms.pstr(D), st.atoms.pstr(st.norm(En)), st.atoms.pstr(st.norm(Ed)))
    return True, 'Rnd[%s](%s / %s)' % (k, st.atoms.pstr(N), st.atoms.pstr(D))


CORE = 'fpdec_core::rounding::'
DEFAULT_ID = CORE + '{impl#0}::default'


def default_mode_fn(db):
    c = [f for f in db.fns.values() if f['impl'] and f['impl']['trait'] == 'core::default::Default' and f['impl']['self'].endswith('RoundingMode') and f['name'] == 'default']
    if len(c) != 1:
        raise SystemExit('fpsa: <RoundingMode as Default>::default not found (fail closed)')
    return c[0]


def caller_summaries(db):
    """summaries installed when analysing callers of the rounding helpers (each is proved separately in C05/C16)"""
    return {
        CORE + 'i128_div_rounded': summ_i128_div_rounded,
        default_mode_fn(db)['id']: summ_default_mode,
    }


# ----------------------------------------------------------------------------- summaries U of the unsigned kernels (proved by C16 U-KERNEL)
def _deref(I, st, v):
    from .models import deref
    return deref(I, st, v)


def summ_u128_mul_u128(I, st, args, fid):
    """(U) u128_mul_u128(x, y) = (hi, lo) with hi*2^128 + lo = x*y (delivered where the function delivers them: conv.mul_conv)"""
    from . import conv
    cv = conv.mul_conv(I.db, I.db.fns[fid])
    x, y = cv.summ_inputs(I, st, args)
    W = pmul(st.norm(x.p), st.norm(y.p))
    T = I.tdiv_atom(st, W, pconst(2**128))
    hi = I.mk(st, 'u128', T)
    lo = I.mk(st, 'u128', padd(W, pscale(T, 2**128), -1), 0, 2**128 - 1)
    return cv.summ_finish(I, st, args, [hi, lo])


def summ_u256_idiv_u128(I, st, args, fid):
    """(U) u256_idiv_u128 on (xh, xl, y), y > 0: quotient words (qh, ql) of floor((xh*2^128 + xl) / y) and the remainder (< y), read and
    delivered by the function's own calling convention (conv.div_conv: `&mut` in/out words and a returned remainder on the pinned tree)"""
    from . import conv
    cv = conv.div_conv(I.db, I.db.fns[fid], 'DIV')
    xh, xl, y = cv.summ_inputs(I, st, args)
    if not st.sign(y.p) <= POS:
        raise Stop('summary U: divisor of u256_idiv_u128 not known positive')
    W = st.norm(padd(pscale(xh.p, 2**128), xl.p))
    Q = I.tdiv_atom(st, W, st.norm(y.p))
    R = st.norm(padd(W, pmul(Q, st.norm(y.p)), -1))
    H = I.tdiv_atom(st, st.norm(Q), pconst(2**128))
    nh = I.mk(st, 'u128', H)
    nl = I.mk(st, 'u128', padd(Q, pscale(H, 2**128), -1), 0, 2**128 - 1)
    return cv.summ_finish(I, st, args, [nh, nl, I.mk(st, 'u128', R, 0, None)])


def u_summaries(db=None):
    from . import roles
    from .harness import get_db
    db = db or get_db()
    return {roles.resolve(db, 'MUL'): summ_u128_mul_u128, roles.resolve(db, 'DIV'): summ_u256_idiv_u128}


def summ_wide_rounded(kind):
    """(W) i128_shifted_div_rounded(x, p, y, m) / i128_mul_div_ten_pow_rounded(x, y, p, m):
    Some(RoundSpec(m, N/D)) or None when the rounded quotient does not fit (recorded as note 'wide-overflow')"""
    def f(I, st, args, fid):
        if kind == 'shifted':
            x, p, y, m = args
            plo, phi = st.itv(p)
            if plo != phi:
                raise Stop('symbolic shift')
            N, D = pscale(x.p, 10 ** plo), y.p
        else:
            x, y, p, m = args
            plo, phi = st.itv(p)
            if plo != phi:
                raise Stop('symbolic shift')
            N, D = pmul(st.norm(x.p), st.norm(y.p)), pconst(10 ** plo)
        sd = st.decide(D, [NEG, ZERO, POS])
        if sd == 1:
            raise PanicExc('DivisionByZero', {'fn': fid})
        if sd == 0:
            N, D = pneg(N), pneg(D)
        mk = mode_key(I, m)
        a = rnd_atom(I, st, N, D, mk)
        lo, hi = st.range_of(a)
        fits = lo is not None and hi is not None and lo >= -(2**127) and hi <= 2**127 - 1
        never = (hi is not None and hi < -(2**127)) or (lo is not None and lo > 2**127 - 1)
        if fits:
            return some(I.mk(st, 'i128', a))
        if never:
            st.note(('wide-overflow', pfreeze(st.norm(N)), pfreeze(st.norm(D)), mk))
            return none()
        k = st.choose(2)
        if k == 0:
            st.assume_in_range(a, -(2**127), 2**127 - 1)
            return some(I.mk(st, 'i128', a))
        st.note(('wide-overflow', pfreeze(st.norm(N)), pfreeze(st.norm(D)), mk))
        return none()
    return f


def all_caller_summaries(db):
    s = caller_summaries(db)
    s[CORE + 'i128_shifted_div_rounded'] = summ_wide_rounded('shifted')
    s[CORE + 'i128_mul_div_ten_pow_rounded'] = summ_wide_rounded('muldiv')
    return s


def find_rnd(st, p):
    """rounded terms Rnd[..](N/D) whose value equals polynomial p on this path: list of (N, D, mk)"""
    from .harness import poly_eq
    res = []
    m = match_rnd(st, p)
    if m is not None and m[0] == 1:
        return [(m[1], m[2], m[3])]
    for a, d in enumerate(st.atoms.desc):
        if d[0] == 'rnd':
            try:
                if poly_eq(st, patom(a), p):
                    res.append((pthaw(d[1]), pthaw(d[2]), d[3]))
            except Infeasible:
                pass
    return res


def value_is_rnd(st, p, En, Ed, mk='thread'):
    """(ok, msg): polynomial p equals Rnd[mk](En/Ed) on this path (possibly through recorded equalities)"""
    from .harness import poly_eq
    c = find_rnd(st, p)
    if not c:
        return False, 'value %s is not a rounded term' % st.atoms.pstr(st.norm(p))
    for N, D, k in c:
        if k != mk:
            continue
        if st.sign(D) <= POS and st.sign(Ed) <= POS and poly_eq(st, pmul(N, Ed), pmul(En, D)):
            return True, 'Rnd[%s](%s / %s)' % (k, st.atoms.pstr(N), st.atoms.pstr(D))
        if st.sign(D) <= POS and st.sign(Ed) <= POS and sticky_equivalent(st, N, D, En, Ed):
            return True, 'Rnd[%s](%s / %s) == Rnd(%s / %s) by the sticky-bit lemma' % (k, st.atoms.pstr(N), st.atoms.pstr(D), st.atoms.pstr(st.norm(En)), st.atoms.pstr(st.norm(Ed)))
    N, D, k = c[0]
    return False, 'rounds %s / %s under %s, expected %s / %s under %s' % (st.atoms.pstr(N), st.atoms.pstr(D), k, st.atoms.pstr(st.norm(En)), st.atoms.pstr(st.norm(Ed)), mk)


def sticky_equivalent(st, N, D, En, Ed):
    """LEMMA (trusted, proved by hand in DESIGN.md): for E even, E > 0, Y > 0 and integers Q, R with En = Q*Y + R, 0 <= R < Y:
         RoundSpec(mode, (2*Q + [R != 0]) / (2*E)) = RoundSpec(mode, En / (Y*E))   for all eight modes
    (both have floor quotient floor(Q/E); the remainders 2*rho + [R != 0] vs 2*E and rho + R/Y vs E compare identically for zero, below / at / above half).
    This function checks the lemma's hypotheses on path `st` for N = 2*Q + e, D = 2*E, Ed = Y*E."""
    from .harness import poly_eq
    Dc = pis_const(st.norm(D))
    if Dc is None or Dc <= 0 or Dc % 4 != 0:
        return False
    E = Dc // 2
    Edn = st.norm(Ed)
    if any(v % E for v in Edn.values()):
        return False
    Y = {m: v // E for m, v in Edn.items()}
    if not st.sign(Y) <= POS:
        return False
    Nn = st.norm(N)
    cands = []
    c0 = Nn.get((), 0)
    cands.append((pconst(c0 % 2), None))
    for m in Nn:
        if len(m) == 1 and Nn[m] == 1 and m[0] in st.atoms.cond:
            cands.append((patom(m[0]), m[0]))
    for e, atom in cands:
        rest = padd(Nn, e, -1)
        if any(v % 2 for v in rest.values()):
            continue
        Q = {m: v // 2 for m, v in rest.items()}
        R = st.norm(padd(En, pmul(Q, Y), -1))
        try:
            if not (st.sign(R) <= NONNEG and st.sign(padd(R, Y, -1)) <= NEG):
                continue
            if atom is None:
                ev = pis_const(e)
                if ev == 0 and st.sign(R) == ZERO:
                    return True
                if ev == 1 and 0 not in st.sign(R):
                    return True
            else:
                cnd = st.atoms.cond[atom]
                if cnd[0] == 'sign' and cnd[2] == NONZERO and (poly_eq(st, cnd[1], R) or poly_eq(st, cnd[1], pneg(R))):
                    return True
        except Infeasible:
            continue
    return False
