"""Obligation bookkeeping, verdicts, evidence and replay files."""
import hashlib
import json
import os
import sys
import time

VERIF = os.path.dirname(os.path.dirname(os.path.abspath(__file__)))
EVIDENCE = os.path.join(VERIF, 'evidence')
REPLAY = os.path.join(VERIF, 'replay')
KNOWN = os.path.join(VERIF, 'known_findings.json')


def load_known(prop):
    """open findings of this property: exact obligation key -> entry"""
    if not os.path.exists(KNOWN):
        return {}
    out = {}
    for e in json.load(open(KNOWN)):
        if e.get('property') != prop or e.get('status') != 'open':
            continue
        for k in e.get('keys', []):
            out[k] = e
    return out


class Report:
    """Collects obligations of one property run.

    An obligation has a *key* (rule;root;site;cell class - never a line
    number), a verdict and a human-readable detail.  Undischarged obligations
    are violations unless known_findings.json lists exactly that key.
    """

    def __init__(self, prop, tier, level='proof', only_key=None):
        self.prop = prop
        self.tier = tier
        self.level = level
        self.t0 = time.time()
        self.obls = []          # (key, ok, rule)
        self.fail = []          # dicts
        self.samples = []
        self.rules = {}         # rule -> {'instances','discharged','floor'}
        self.assumptions = []
        self.trusted = []
        self.extra = {}
        self.explanation = ''
        self.only_key = only_key
        self.seen = set()
        self.floor_errors = []
        self.tree_hash = None
        self.configs = []

    # ------------------------------------------------------------------
    def ob(self, rule, key, ok, detail='', site=None, sample=None):
        """record one obligation; key must be unique within the run"""
        full = '%s;%s' % (rule, key)
        if self.only_key and full != self.only_key:
            return ok
        if full in self.seen:
            # same obligation reached twice (e.g. two configurations): keep the worse verdict
            if not ok and not any(f['key'] == full for f in self.fail):
                self.fail.append({'key': full, 'rule': rule, 'detail': detail, 'site': site})
                self.rules[rule]['discharged'] -= 1
            return ok
        self.seen.add(full)
        r = self.rules.setdefault(rule, {'instances': 0, 'discharged': 0})
        r['instances'] += 1
        if ok:
            r['discharged'] += 1
        else:
            self.fail.append({'key': full, 'rule': rule, 'detail': detail, 'site': site})
        if sample is not None and len(self.samples) < 12:
            self.samples.append(sample)
        elif len(self.samples) < 6 and ok:
            self.samples.append({'obligation': full, 'verdict': 'discharged', 'detail': str(detail)[:300]})
        return ok

    def floor(self, rule, n):
        """fail closed when a rule matched fewer instances than counted by hand"""
        have = self.rules.get(rule, {}).get('instances', 0)
        self.rules.setdefault(rule, {'instances': 0, 'discharged': 0})['floor'] = n
        if getattr(self, 'cut_short', 0):
            return          # the run was cut short after many violations (harness.FAIL_FAST): instance counts are incomplete, the verdict is a violation anyway
        if have < n and not self.only_key:
            self.floor_errors.append('%s: %d instances, floor %d' % (rule, have, n))

    def assume(self, text):
        if text not in self.assumptions:
            self.assumptions.append(text)

    def trust(self, text):
        if text not in self.trusted:
            self.trusted.append(text)

    # ------------------------------------------------------------------
    def finish(self):
        known = load_known(self.prop)
        if getattr(self, 'cut_short', 0):
            self.extra['cut_short'] = '%d chunks of cells not run: the run stopped after %d failed obligations (fail fast)' % (self.cut_short, len(self.fail))
            print('note: run cut short after %d failed obligations; %d chunks of cells were not run' % (len(self.fail), self.cut_short))
        n_ob = sum(r['instances'] for r in self.rules.values())
        violations = []
        known_hit = []
        for f in self.fail:
            if f['key'] in known:
                known_hit.append((f, known[f['key']]))
            else:
                violations.append(f)
        for fe in self.floor_errors:
            violations.append({'key': 'FLOOR;' + fe, 'rule': 'FLOOR', 'detail': 'instance count below the floor counted on the pinned tree: ' + fe, 'site': None})
        os.makedirs(EVIDENCE, exist_ok=True)
        printed = set()
        for f, e in known_hit:
            line = 'KNOWN-FINDING: property=%s %s :: %s' % (self.prop, f['key'], e.get('short') or e.get('what', '')[:140])
            if line not in printed:
                print(line)
                printed.add(line)
        if violations:
            os.makedirs(REPLAY, exist_ok=True)
        shown = 0
        for f in violations:
            shown += 1
            if shown > 25:
                print('  ... %d further violations (replay files are written only for the first 25)' % (len(violations) - 25))
                break
            h = hashlib.sha1(f['key'].encode()).hexdigest()[:12]
            path = os.path.join(REPLAY, '%s-%s.json' % (self.prop, h))
            with open(path, 'w') as fh:
                json.dump({'property': self.prop, 'key': f['key'], 'rule': f['rule'], 'detail': f['detail'],
                           'site': f['site'], 'tier': self.tier, 'tree_hash': self.tree_hash}, fh, indent=1, default=str)
            print('VIOLATION property=%s replay=%s' % (self.prop, path))
            print('  rule=%s key=%s' % (f['rule'], f['key']))
            if f.get('site'):
                print('  site=%s' % (f['site'],))
            print('  %s' % (str(f['detail'])[:1500],))
        discharged = n_ob - len(self.fail)
        cov = {
            'obligations': n_ob,
            'discharged': discharged,
            'known_findings_matched': len(known_hit),
            'checker_cmd': './check %s --tier %s' % (self.prop, self.tier),
            'trusted_base': self.trusted,
            'evaluations': n_ob,
            'distinct_nontrivial': len(self.seen),
            'rule': 'one evaluation per obligation key (rule;root;site;cell class); keys are distinct by construction (a set), every obligation is decided from the MIR of the current tree',
            'samples': self.samples[:12] or [{'note': 'no obligation recorded'}],
            'explanation': self.explanation,
            'rules': [dict(rule=k, **v) for k, v in sorted(self.rules.items())],
            'tree_hash': self.tree_hash,
            'configs': self.configs,
            'exhaustive': True,
        }
        cov.update(self.extra)
        ev = {
            'property_id': self.prop,
            'tier': self.tier,
            'seed': int(os.environ.get('VERIF_SEED', '0') or 0),
            'level': self.level if not known_hit else 'other',
            'coverage': cov,
            'assumptions': self.assumptions,
            'wall_s': round(time.time() - self.t0, 3),
            'violations': len(violations),
        }
        scratch = os.environ.get('FPDEC_REPO') not in (None, '', '/repo')
        if scratch:
            print('(scratch tree %s: evidence file not written)' % os.environ.get('FPDEC_REPO'))
        if not self.only_key and not scratch:
            with open(os.path.join(EVIDENCE, self.prop + '.json'), 'w') as fh:
                json.dump(ev, fh, indent=1, default=str)
        print('%s tier=%s obligations=%d discharged=%d known=%d violations=%d wall=%.1fs' % (
            self.prop, self.tier, n_ob, discharged, len(known_hit), len(violations), time.time() - self.t0))
        for k, v in sorted(self.rules.items()):
            print('  %-22s instances=%-6d discharged=%-6d floor=%s' % (k, v['instances'], v['discharged'], v.get('floor', '-')))
        return 1 if violations else 0
