"""Audited models of callees outside the workspace (DESIGN.md Appendix B).

Each model is a function (interp, state, frame, args, path, generic args, terminator) -> value
(or CALL_PUSHED when it pushed a frame).  Arithmetic models carry exact term
semantics; functions carrying #[rustc_inherit_overflow_checks] are modelled as
overflow-checked operations whose failure is *profile dependent*.
An unmodelled callee makes the path 'unknown' (fail closed).
"""
import re
from .absint import (Agg, Int, Ref, Opaque, FnVal, SliceVal, K, none, some, UNIT, OPTION, RESULT, ORDERING, CONTROLFLOW,
                     PanicExc, Stop, Infeasible, CALL_PUSHED, ALL, NEG, ZERO, POS, NONNEG, NONPOS, NONZERO, EnumSym)
from .db import INT_RANGES
from .poly import padd, pconst, pmul, pneg, pfreeze, pis_const, patom, plinear_single, pthaw

INT = r'(i8|u8|i16|u16|i32|u32|i64|u64|i128|u128|isize|usize)'
_table = []


def model(pattern):
    rx = re.compile('^' + pattern + '$')

    def deco(f):
        _table.append((rx, f))
        return f
    return deco


_cache = {}


def lookup(path, fid):
    if path in _cache:
        return _cache[path]
    r = None
    for rx, f in _table:
        if rx.match(path):
            r = f
            break
    _cache[path] = r
    return r


def deref(I, st, v):
    while isinstance(v, Ref):
        tf = I.frame_of(st, v.frame)
        v = I.project(st, tf, tf.L.get(v.local), v.proj)
    return v


def ordering(variant):
    return Agg(ORDERING, variant, ())


def range_split(st, p, rlo, rhi):
    """'in' / 'below' / 'above': three-way split of p against [rlo, rhi]; each side records its fact"""
    s1 = st.sign(padd(p, pconst(rlo), -1))     # p - lo
    s2 = st.sign(padd(pconst(rhi), p, -1))     # hi - p
    cands = []
    if (s1 & NONNEG) and (s2 & NONNEG):
        cands.append('in')
    if s1 & NEG:
        cands.append('below')
    if s2 & NEG:
        cands.append('above')
    if not cands:
        raise Infeasible()
    c = cands[st.choose(len(cands))] if len(cands) > 1 else cands[0]
    if c == 'in':
        st.assume_in_range(p, rlo, rhi)
    elif c == 'below':
        st.assume(padd(p, pconst(rlo), -1), NEG)
    else:
        st.assume(padd(pconst(rhi), p, -1), NEG)
    return c


# ----------------------------------------------------------------------------- conversions
@model(r'<T as core::convert::From<T>>::from')
def m_from_identity(I, st, fr, args, path, gargs, t):
    return args[0]


@model(r'<T as core::convert::Into<U>>::into')
def m_into(I, st, fr, args, path, gargs, t):
    if len(gargs) == 2 and gargs[0] == gargs[1]:
        return args[0]
    if len(gargs) == 2 and all('TokenStream' in g for g in gargs):
        return Opaque(gargs[1], 'tokens')
    raise Stop('Into %s' % (gargs,))


def _gty(fr, g):
    """a generic argument with the frame's substitution applied"""
    gs = getattr(fr, 'gsubst', None) or {}
    return gs.get(g, g)


@model(r'core::convert::Into::into')
def m_into_unresolved(I, st, fr, args, path, gargs, t):
    # trait-method call in a generic body (`i.into()` with T: Into<i128>): for primitive integers Into is the lossless From
    x = args[0]
    tys = [_gty(fr, g) for g in gargs if not g.startswith("'")]
    to = tys[1] if len(tys) >= 2 else None
    if isinstance(x, Int) and to in INT_RANGES:
        if to == x.ty:
            return x
        slo, shi = INT_RANGES[x.ty]
        tlo, thi = INT_RANGES[to]
        if tlo <= slo and shi <= thi:
            return I.cast(st, 'IntToInt', x, to)
    raise Stop('Into %s of %r' % (gargs, x))


@model(r'core::convert::TryFrom::try_from')
def m_try_from_unresolved(I, st, fr, args, path, gargs, t):
    # `T::try_from(i)` in a generic body with T: TryFrom<i128>: the primitive integer conversion once T is known
    x = args[0]
    tys = [_gty(fr, g) for g in gargs if not g.startswith("'")]
    to = tys[0] if tys else None
    if isinstance(x, Int) and to in INT_RANGES:
        if to == x.ty:
            return Agg(RESULT, 0, (x,))
        return m_try_from_int(I, st, fr, args, 'core::convert::num::<impl core::convert::TryFrom<%s> for %s>::try_from' % (x.ty, to), gargs, t)
    raise Stop('TryFrom %s of %r' % (gargs, x))


@model(r'core::convert::num::<impl core::convert::From<' + INT + r'> for ' + INT + r'>::from')
def m_from_int(I, st, fr, args, path, gargs, t):
    to = re.search(r'for ' + INT + '>::from', path).group(1)
    return I.cast(st, 'IntToInt', args[0], to)


@model(r'core::convert::num::<impl core::convert::From<bool> for ' + INT + r'>::from')
def m_from_bool(I, st, fr, args, path, gargs, t):
    to = re.search(r'for ' + INT + '>::from', path).group(1)
    return I.cast(st, 'IntToInt', args[0], to)


@model(r'core::convert::num::(?:ptr_try_from_impls::)?<impl core::convert::TryFrom<' + INT + r'> for ' + INT + r'>::try_from')
def m_try_from_int(I, st, fr, args, path, gargs, t):
    to = re.search(r'for ' + INT + '>::try_from', path).group(1)
    x = args[0]
    rlo, rhi = INT_RANGES[to]
    r = range_split(st, x.p, rlo, rhi) == 'in'
    if r:
        return Agg(RESULT, 0, (I.mk(st, to, x.p),))
    return Agg(RESULT, 1, (Agg('core::num::error::TryFromIntError', 0, (UNIT,)),))


# ----------------------------------------------------------------------------- overflow-checked operator impls
def _checked_op(I, st, base, a, b, ty, what):
    p = I.arith_poly(st, base, a, b)
    rlo, rhi = INT_RANGES[ty]
    r = st.in_range(p, rlo, rhi)
    if r is None:
        k = st.choose(2)
        if k == 0:
            st.assume_in_range(p, rlo, rhi)
            r = True
        else:
            r = False
    if not r:
        raise PanicExc('overflow', {'op': base, 'fn': what, 'term': pfreeze(st.norm(p)), 'inherit': True}, profile_dependent=True)
    return I.mk(st, ty, p)


@model(r'<' + INT + r' as core::ops::(Add|Sub|Mul)>::(add|sub|mul)')
def m_op_trait(I, st, fr, args, path, gargs, t):
    m = re.match(r'<' + INT + r' as core::ops::(Add|Sub|Mul)>', path)
    return _checked_op(I, st, m.group(2), args[0], args[1], m.group(1), path)


@model(r'<' + INT + r' as core::ops::Neg>::neg')
def m_neg(I, st, fr, args, path, gargs, t):
    ty = re.match(r'<' + INT, path).group(1)
    return _checked_op(I, st, 'Sub', K(0, ty), args[0], ty, path)


@model(r'core::num::<impl ' + INT + r'>::abs')
def m_abs(I, st, fr, args, path, gargs, t):
    x = args[0]
    s = I.sign_split(st, x.p)
    if s > 0:
        return x
    return _checked_op(I, st, 'Sub', K(0, x.ty), x, x.ty, path)


@model(r'core::num::<impl ' + INT + r'>::unsigned_abs')
def m_unsigned_abs(I, st, fr, args, path, gargs, t):
    x = args[0]
    uty = 'u' + x.ty[1:]
    s = I.sign_split(st, x.p)
    if s > 0:
        return I.mk(st, uty, x.p)
    return I.mk(st, uty, pneg(x.p))


@model(r'core::num::<impl ' + INT + r'>::signum')
def m_signum(I, st, fr, args, path, gargs, t):
    x = args[0]
    idx = st.decide(x.p, [NEG, ZERO, POS])
    return K(idx - 1, x.ty)


@model(r'core::num::<impl ' + INT + r'>::is_negative')
def m_is_negative(I, st, fr, args, path, gargs, t):
    x = args[0]
    s = st.sign(x.p)
    if s <= NEG:
        return K(1, 'bool')
    if not (s & NEG):
        return K(0, 'bool')
    r = st.fresh('bool', 0, 1, 'isneg')
    r.cond = ('sign', x.p, NEG)
    return r


@model(r'core::num::<impl ' + INT + r'>::is_positive')
def m_is_positive(I, st, fr, args, path, gargs, t):
    x = args[0]
    s = st.sign(x.p)
    if s <= POS:
        return K(1, 'bool')
    if not (s & POS):
        return K(0, 'bool')
    r = st.fresh('bool', 0, 1, 'ispos')
    r.cond = ('sign', x.p, POS)
    return r


@model(r'core::num::<impl ' + INT + r'>::checked_(add|sub|mul)')
def m_checked(I, st, fr, args, path, gargs, t):
    m = re.match(r'core::num::<impl ' + INT + r'>::checked_(add|sub|mul)', path)
    ty, op = m.group(1), m.group(2).capitalize()
    p = I.arith_poly(st, op, args[0], args[1])
    rlo, rhi = INT_RANGES[ty]
    pf = pfreeze(st.norm(p))          # the term as it stands before the overflow assumption refines it
    r = range_split(st, p, rlo, rhi) == 'in'
    if r:
        return some(I.mk(st, ty, p))
    st.note(('overflows', pf, ty))
    return none()


@model(r'core::num::<impl ' + INT + r'>::wrapping_(add|sub|mul)')
def m_wrapping(I, st, fr, args, path, gargs, t):
    m = re.match(r'core::num::<impl ' + INT + r'>::wrapping_(add|sub|mul)', path)
    ty, op = m.group(1), m.group(2).capitalize()
    rlo, rhi = INT_RANGES[ty]
    modulus = rhi - rlo + 1
    from .absint import Lanes
    if isinstance(args[0], Lanes) or isinstance(args[1], Lanes):
        a_, b_ = args
        if op in ('Add', 'Sub') and isinstance(a_, Lanes) and isinstance(b_, Int) and st.itv(b_)[0] == st.itv(b_)[1]:
            return I.lanes_addsub(st, a_, st.itv(b_)[0], op == 'Sub')
        args = [I.lanes_to_int(st, x) if isinstance(x, Lanes) else x for x in args]

    def rep(x):
        # a previous wrapping result stands for its unreduced term (congruent modulo 2^w)
        ls = plinear_single(st.norm(x.p))
        if ls is not None and ls[1] == 1 and ls[2] == 0:
            mr = st.modrep.get(ls[0])
            if mr is not None and mr[1] == modulus:
                return Int(x.ty, None, None, st.norm(pthaw(mr[0])))
        return x
    a, b = rep(args[0]), rep(args[1])
    p = I.arith_poly(st, op, a, b)
    if st.in_range(p, rlo, rhi) is True:
        return I.mk(st, ty, p)
    cp = pis_const(st.norm(p))
    if cp is not None:
        # concrete operands: the wrapped value itself
        v = (cp - rlo) % modulus + rlo
        return K(v, ty)
    if st.tactics and rlo == 0:
        plo, phi = st.range_of(p)
        if plo is not None and plo >= 0 and st.relational_upper(p, rhi):
            return I.mk(st, ty, p, 0, rhi)
    if modulus <= 2 ** 16:
        # byte / short arithmetic (character classification idioms like `c.wrapping_sub(b'0') < 10`): at most one wrap either way - decide which
        plo, phi = st.range_of(p)
        if plo is not None and phi is not None and plo >= rlo - modulus and phi <= rhi + modulus:
            r_ = range_split(st, p, rlo, rhi)
            if r_ == 'in':
                return I.mk(st, ty, p)
            return I.mk(st, ty, padd(p, pconst(modulus if r_ == 'below' else -modulus)))
    r = st.fresh(ty, tag='wrapping')
    ls = plinear_single(r.p)
    if ls is not None:
        st._jset('modrep', ls[0], (pfreeze(st.norm(p)), modulus))
    return r


@model(r'core::num::<impl ' + INT + r'>::saturating_sub')
def m_saturating_sub(I, st, fr, args, path, gargs, t):
    ty = re.match(r'core::num::<impl ' + INT, path).group(1)
    p = padd(args[0].p, args[1].p, -1)
    rlo, rhi = INT_RANGES[ty]
    if st.in_range(p, rlo, rhi) is True:
        return I.mk(st, ty, p)
    r = range_split(st, p, rlo, rhi)
    if r == 'in':
        return I.mk(st, ty, p)
    return K(rlo if r == 'below' else rhi, ty)


@model(r'core::num::<impl ' + INT + r'>::pow')
def m_pow(I, st, fr, args, path, gargs, t):
    ty = re.match(r'core::num::<impl ' + INT, path).group(1)
    blo, bhi = st.itv(args[0])
    elo, ehi = st.itv(args[1])
    if blo == bhi and elo == ehi:
        v = blo ** elo
        rlo, rhi = INT_RANGES[ty]
        if rlo <= v <= rhi:
            return K(v, ty)
        raise PanicExc('overflow', {'op': 'pow', 'fn': path, 'inherit': True}, profile_dependent=True)
    if blo == bhi and ehi - elo <= 64:
        # fork over the exponent values
        k = st.choose(ehi - elo + 1)
        e = elo + k
        st.assume(padd(args[1].p, pconst(e), -1), ZERO)
        v = blo ** e
        rlo, rhi = INT_RANGES[ty]
        if rlo <= v <= rhi:
            return K(v, ty)
        raise PanicExc('overflow', {'op': 'pow', 'fn': path, 'inherit': True}, profile_dependent=True)
    raise Stop('pow with symbolic operands')


@model(r'core::num::<impl ' + INT + r'>::(trailing_zeros|leading_zeros|count_ones)')
def m_bitcount(I, st, fr, args, path, gargs, t):
    ty = re.match(r'core::num::<impl ' + INT, path).group(1)
    bits = {'8': 8, '16': 16, '32': 32, '64': 64, '128': 128, 'size': 64}[ty[1:]]
    lo, hi = st.itv(args[0])
    if lo == hi:
        v = lo & ((1 << bits) - 1)
        if path.endswith('trailing_zeros'):
            r = bits if v == 0 else (v & -v).bit_length() - 1
        elif path.endswith('leading_zeros'):
            r = bits - v.bit_length()
        else:
            r = bin(v).count('1')
        return K(r, 'u32')
    X = st.norm(args[0].p)
    if path.endswith('trailing_zeros'):
        # interned term tz(x): `x >> x.trailing_zeros()` is recognised as the odd part of x
        a = st.atoms.get(('tz', pfreeze(X), bits))
        nz = 0 not in st.sign(X)
        b = (0, bits - 1 if nz else bits)
        if lo >= 0 and hi > 0:
            b = (0, min(b[1], hi.bit_length() - 1 if nz else bits))
        old = st.bounds.get(a)
        if old is not None:
            b = (max(b[0], old[0]), min(b[1], old[1]))
        st._jset('bounds', a, b)
        return Int('u32', b[0], b[1], patom(a))
    if path.endswith('leading_zeros') and lo >= 0:
        b = (bits - hi.bit_length(), bits - lo.bit_length())
        if b[0] == b[1]:
            return K(b[0], 'u32')
        if b[1] - b[0] <= 3:
            # few possible values: decide the binade of x (forks), leading_zeros becomes concrete
            for c in range(b[0], b[1]):
                if st.decide(padd(X, pconst(2 ** (bits - c - 1)), -1), [NONNEG, NEG]) == 0:
                    return K(c, 'u32')
            return K(b[1], 'u32')
        a = st.atoms.get(('lz', pfreeze(X), bits))
        old = st.bounds.get(a)
        if old is not None:
            b = (max(b[0], old[0]), min(b[1], old[1]))
        st._jset('bounds', a, b)
        return Int('u32', b[0], b[1], patom(a))
    return st.fresh('u32', 0, bits, 'bitcount')


@model(r'core::num::<impl ' + INT + r'>::from_le')
def m_from_le(I, st, fr, args, path, gargs, t):
    return args[0]


# ----------------------------------------------------------------------------- comparisons
@model(r'core::cmp::impls::<impl core::cmp::Ord for ' + INT + r'>::cmp')
def m_ord_cmp(I, st, fr, args, path, gargs, t):
    a, b = deref(I, st, args[0]), deref(I, st, args[1])
    d = padd(a.p, b.p, -1)
    idx = st.decide(d, [NEG, ZERO, POS])
    st.note(('cmp', pfreeze(st.norm(a.p)), pfreeze(st.norm(b.p)), idx - 1))
    return ordering(idx)


@model(r'core::cmp::impls::<impl core::cmp::PartialOrd for ' + INT + r'>::partial_cmp')
def m_partial_cmp(I, st, fr, args, path, gargs, t):
    return some(m_ord_cmp(I, st, fr, args, path, gargs, t))


@model(r'core::cmp::impls::<impl core::cmp::PartialOrd for ' + INT + r'>::(lt|le|gt|ge)')
def m_partial_ops(I, st, fr, args, path, gargs, t):
    a, b = deref(I, st, args[0]), deref(I, st, args[1])
    op = {'lt': 'Lt', 'le': 'Le', 'gt': 'Gt', 'ge': 'Ge'}[path.rsplit('::', 1)[1]]
    return I.compare(st, op, a, b)


@model(r'core::cmp::impls::<impl core::cmp::PartialEq for ' + INT + r'>::(eq|ne)')
def m_partial_eq(I, st, fr, args, path, gargs, t):
    a, b = deref(I, st, args[0]), deref(I, st, args[1])
    return I.compare(st, 'Eq' if path.endswith('eq') else 'Ne', a, b)


@model(r'core::cmp::(min|max)')
def m_minmax(I, st, fr, args, path, gargs, t):
    a, b = args
    if not (isinstance(a, Int) and isinstance(b, Int)):
        raise Stop('min/max of %r' % (a,))
    d = padd(a.p, b.p, -1)
    idx = st.decide(d, [NONPOS, POS])     # a <= b ?
    if path.endswith('min'):
        return a if idx == 0 else b
    return b if idx == 0 else a


@model(r'core::cmp::Ordering::reverse')
def m_reverse(I, st, fr, args, path, gargs, t):
    v = args[0]
    return ordering(2 - v.variant)


@model(r'core::cmp::Ordering::(is_lt|is_le|is_gt|is_ge|is_eq|is_ne)')
def m_ordering_is(I, st, fr, args, path, gargs, t):
    v = args[0].variant - 1
    f = path.rsplit('::', 1)[1]
    r = {'is_lt': v < 0, 'is_le': v <= 0, 'is_gt': v > 0, 'is_ge': v >= 0, 'is_eq': v == 0, 'is_ne': v != 0}[f]
    return K(int(r), 'bool')


# ----------------------------------------------------------------------------- Option / Result plumbing
@model(r'<core::option::Option<T> as core::ops::Try>::branch')
def m_opt_branch(I, st, fr, args, path, gargs, t):
    v = args[0]
    if not isinstance(v, Agg):
        raise Stop('Try::branch on %r' % (v,))
    if v.variant == 1:
        return Agg(CONTROLFLOW, 0, (v.fields[0],))
    return Agg(CONTROLFLOW, 1, (none(),))


@model(r'<core::option::Option<T> as core::ops::FromResidual<core::option::Option<core::convert::Infallible>>>::from_residual')
def m_opt_residual(I, st, fr, args, path, gargs, t):
    return none()


@model(r'<core::result::Result<T, E> as core::ops::Try>::branch')
def m_res_branch(I, st, fr, args, path, gargs, t):
    v = args[0]
    if not isinstance(v, Agg):
        raise Stop('Try::branch on %r' % (v,))
    if v.variant == 0:
        return Agg(CONTROLFLOW, 0, (v.fields[0],))
    return Agg(CONTROLFLOW, 1, (Agg(RESULT, 1, (v.fields[0],)),))


@model(r'<core::result::Result<T, F> as core::ops::FromResidual<core::result::Result<core::convert::Infallible, E>>>::from_residual')
def m_res_residual(I, st, fr, args, path, gargs, t):
    v = args[0]
    if len(gargs) == 3 and gargs[1] != gargs[2]:
        raise Stop('from_residual with error conversion')
    return Agg(RESULT, 1, (v.fields[0],))


@model(r'core::option::Option::<T>::(unwrap|expect)')
def m_unwrap(I, st, fr, args, path, gargs, t):
    v = args[0]
    if not isinstance(v, Agg):
        raise Stop('unwrap of %r' % (v,))
    if v.variant == 1:
        return v.fields[0]
    raise PanicExc('unwrap-none', {'fn': path})


@model(r'core::option::Option::<T>::is_(some|none)')
def m_is_some(I, st, fr, args, path, gargs, t):
    v = deref(I, st, args[0])
    return K(int((v.variant == 1) == path.endswith('some')), 'bool')


@model(r'core::option::Option::<T>::map')
def m_opt_map(I, st, fr, args, path, gargs, t):
    v, f = args
    if v.variant == 0:
        return none()
    return I.push_closure(st, fr, f, [v.fields[0]], t['dest'], t['target'], on_return=lambda I_, st_, r: some(r))


@model(r'core::bool::<impl bool>::then')
def m_bool_then(I, st, fr, args, path, gargs, t):
    c, f = args
    if not st.truth(c):
        return none()
    return I.push_closure(st, fr, f, [], t['dest'], t['target'], on_return=lambda I_, st_, r: some(r))


@model(r'core::bool::<impl bool>::then_some')
def m_bool_then_some(I, st, fr, args, path, gargs, t):
    c, v = args
    return some(v) if st.truth(c) else none()


@model(r'core::mem::swap')
def m_swap(I, st, fr, args, path, gargs, t):
    a, b = args
    va, vb = deref(I, st, a), deref(I, st, b)
    fa = I.frame_of(st, a.frame)
    fa.L[a.local] = I.updated(st, fa, fa.L.get(a.local), list(a.proj), vb)
    fb = I.frame_of(st, b.frame)
    fb.L[b.local] = I.updated(st, fb, fb.L.get(b.local), list(b.proj), va)
    return UNIT


@model(r'core::hint::must_use')
def m_must_use(I, st, fr, args, path, gargs, t):
    return args[0]


@model(r'core::clone::Clone::clone|<.* as core::clone::Clone>::clone')
def m_clone(I, st, fr, args, path, gargs, t):
    return deref(I, st, args[0])


# ----------------------------------------------------------------------------- panics
def _err_kind(I, st, v):
    v = deref(I, st, v)
    if isinstance(v, Agg) and v.variant is not None:
        adt = I.db.adts.get(v.kind)
        if adt:
            for var in adt['variants']:
                if var['index'] == v.variant:
                    return '%s::%s' % (v.kind.rsplit('::', 1)[1], var['name'])
    return 'display:%r' % (v,)


@model(r'core::panicking::panic_display|core::rt::panic_display')
def m_panic_display(I, st, fr, args, path, gargs, t):
    raise PanicExc(_err_kind(I, st, args[0]), {'fn': path})


@model(r'core::panicking::(panic_fmt|panic|panic_explicit|panic_nounwind|unreachable_display|panic_str_2015)')
def m_panic(I, st, fr, args, path, gargs, t):
    blk = fr.body['blocks'][fr.bb]
    macros = (blk.get('tspan') or {}).get('macros', [])
    kind = 'panic'
    for mm in macros:
        if 'debug_assert' in mm:
            kind = 'debug_assert'
            break
        if '"assert' in mm:
            kind = 'assert'
    raise PanicExc(kind, {'fn': path, 'macros': macros}, profile_dependent=(kind == 'debug_assert'))


@model(r'core::panicking::assert_failed')
def m_assert_failed(I, st, fr, args, path, gargs, t):
    blk = fr.body['blocks'][fr.bb]
    macros = (blk.get('tspan') or {}).get('macros', [])
    dbg = any('debug_assert' in mm for mm in macros)
    raise PanicExc('debug_assert' if dbg else 'assert', {'fn': path, 'macros': macros}, profile_dependent=dbg)


@model(r'core::option::unwrap_failed|core::option::expect_failed|core::result::unwrap_failed')
def m_unwrap_failed(I, st, fr, args, path, gargs, t):
    raise PanicExc('unwrap-none', {'fn': path})


# ----------------------------------------------------------------------------- fmt and strings: the *arguments* handed to the formatting machinery are kept structurally
@model(r"core::fmt::rt::Argument::<'_>::(new_display|new_debug|new_lower_exp|new_upper_exp)")
def m_fmt_arg(I, st, fr, args, path, gargs, t):
    return Agg('fmtarg:' + path.rsplit('::new_', 1)[1], None, (deref(I, st, args[0]),))


@model(r"core::fmt::rt::Argument::<'_>::from_usize")
def m_fmt_arg_usize(I, st, fr, args, path, gargs, t):
    return Agg('fmtarg:usize', None, (deref(I, st, args[0]),))


@model(r"core::fmt::Arguments::<'a>::(new|new_v1|new_v1_formatted|new_const|from_str|from_str_nonconst)")
def m_fmt_arguments(I, st, fr, args, path, gargs, t):
    fa = ()
    for a in args[1:]:
        v = deref(I, st, a)
        if isinstance(v, Agg) and v.kind == 'array':
            fa = v.fields
    tmpl = args[0] if args else None
    return Agg('fmtargs', None, (tmpl,) + tuple(fa))


def fmt_template(tmpl):
    """decode the template byte string of fmt::Arguments::new (encoding documented in core::fmt, nightly 1.97) into
    parts ('lit', text) | ('arg', index, flags or None, width, precision) with width / precision = None | ('const', n) | ('arg', i);
    a plain &str template (from_str) is one literal; None if not decodable"""
    if isinstance(tmpl, SliceVal) and tmpl.tag.startswith('str:'):
        return (('lit', tmpl.tag[4:]),)
    if not (isinstance(tmpl, Opaque) and isinstance(tmpl.tag, tuple) and tmpl.tag[0] == 'bytes'):
        return None
    b = bytes(tmpl.tag[1])
    parts = []
    i = 0
    nxt = 0
    try:
        while True:
            n = b[i]
            i += 1
            if n == 0:
                if i != len(b):
                    return None
                return tuple(parts)
            if n < 0x80:
                parts.append(('lit', b[i:i + n].decode('utf-8')))
                i += n
            elif n == 0x80:
                ln = b[i] | (b[i + 1] << 8)
                i += 2
                parts.append(('lit', b[i:i + ln].decode('utf-8')))
                i += ln
            elif n & 0xC0 == 0xC0:
                flags = width = prec = None
                if n & 1:
                    flags = int.from_bytes(b[i:i + 4], 'little')
                    i += 4
                if n & 2:
                    w = b[i] | (b[i + 1] << 8)
                    i += 2
                    width = ('arg', w) if n & 16 else ('const', w)
                if n & 4:
                    pr = b[i] | (b[i + 1] << 8)
                    i += 2
                    prec = ('arg', pr) if n & 32 else ('const', pr)
                if n & 8:
                    idx = b[i] | (b[i + 1] << 8)
                    i += 2
                else:
                    idx = nxt
                nxt = idx + 1
                parts.append(('arg', idx, flags, width, prec))
            else:
                return None
    except (IndexError, UnicodeDecodeError):
        return None


@model(r'core::fmt::format')
def m_fmt_format(I, st, fr, args, path, gargs, t):
    a = args[0]
    if isinstance(a, Agg) and a.kind == 'fmtargs':
        return Agg('string', fmt_template(a.fields[0]), a.fields[1:])       # variant slot: the decoded template
    return Opaque('String', 'format')


@model(r'<T as core::string::ToString>::to_string')
def m_to_string(I, st, fr, args, path, gargs, t):
    v = deref(I, st, args[0])
    if isinstance(v, Int):
        return Agg('string', None, (Agg('fmtarg:display', None, (v,)),))
    return Opaque('String', 'to_string')


@model(r"core::fmt::Formatter::<'a>::pad_integral")
def m_pad_integral(I, st, fr, args, path, gargs, t):
    st.note(('pad_integral', args[1], args[2], deref(I, st, args[3]) if isinstance(args[3], Ref) else args[3]))
    return Opaque('fmt::Result', 'pad_integral')


@model(r"core::fmt::Formatter::<'a>::(write_fmt|write_str|pad|write_char|pad_formatted_parts)|<str as core::fmt::Display>::fmt|<.* as core::fmt::(Display|Debug)>::fmt")
def m_fmt_write(I, st, fr, args, path, gargs, t):
    a = args[1] if len(args) > 1 else None
    if isinstance(a, Agg) and a.kind == 'fmtargs':
        st.note(('fmtwrite', path, Agg('string', fmt_template(a.fields[0]), a.fields[1:])))
    else:
        st.note(('fmtwrite', path))
    return Opaque('fmt::Result', path.rsplit('::', 1)[1])


@model(r"core::fmt::Formatter::<'a>::precision")
def m_precision(I, st, fr, args, path, gargs, t):
    pr = getattr(I.opts, 'precision', 'sym')
    if pr is None:
        return none()
    if isinstance(pr, int):
        return some(K(pr, 'usize'))
    k = st.choose(2)
    if k == 0:
        return none()
    return some(st.fresh('usize', 0, None, 'precision'))


@model(r"core::fmt::Formatter::<'a>::(width|fill|align|sign_plus|sign_minus|alternate|sign_aware_zero_pad|flags)")
def m_fmt_flags(I, st, fr, args, path, gargs, t):
    return Opaque('fmt', path.rsplit('::', 1)[1])


@model(r'<core::string::String as core::ops::Deref>::deref|core::string::String::as_str')
def m_string_deref(I, st, fr, args, path, gargs, t):
    v = deref(I, st, args[0])
    if isinstance(v, Agg) and v.kind == 'string':
        return Agg('strref', None, (v,))
    return SliceVal(st.fresh('usize', 0, 2**62, 'strlen'), 'str')


# ----------------------------------------------------------------------------- provided comparison methods on workspace types
def _cmp_via_partial_cmp(I, st, fr, args, a_ty, b_ty, meth, t, nderef):
    """core's provided lt/le/gt/ge: partial_cmp(a, b) mapped to a bool (core::cmp source, trusted)"""
    from .db import strip_lt
    a_ty, b_ty = strip_lt(a_ty), strip_lt(b_ty)
    pc = I.db.find_impl_fn('core::cmp::PartialOrd', [a_ty, b_ty], 'partial_cmp')
    if pc is None:
        raise Stop('no partial_cmp impl for %s, %s' % (a_ty, b_ty))
    a, b = args
    for _ in range(nderef):
        a, b = deref1(I, st, a), deref1(I, st, b)
    want = {'lt': (0,), 'le': (0, 1), 'gt': (2,), 'ge': (1, 2)}[meth]

    def conv(I_, st_, r):
        if not (isinstance(r, Agg) and r.kind == OPTION):
            raise Stop('partial_cmp returned %r' % (r,))
        if r.variant == 0:
            return K(0, 'bool')
        return K(int(r.fields[0].variant in want), 'bool')
    nf_args = [a, b]
    from .absint import Frame
    L = {1: a, 2: b}
    nf = Frame(pc, pc, L, t['dest'], t['target'], {})
    nf.on_return = conv
    st.frames.append(nf)
    return CALL_PUSHED


def deref1(I, st, v):
    if isinstance(v, Ref):
        tf = I.frame_of(st, v.frame)
        return I.project(st, tf, tf.L.get(v.local), v.proj)
    raise Stop('deref1 of %r' % (v,))


@model(r'core::cmp::impls::<impl core::cmp::PartialOrd<&B> for &A>::(lt|le|gt|ge)')
def m_ref_partial_ord(I, st, fr, args, path, gargs, t):
    meth = path.rsplit('::', 1)[1]
    tys = [g for g in gargs if not g.startswith("'")]
    return _cmp_via_partial_cmp(I, st, fr, args, tys[0], tys[1], meth, t, 1)


@model(r'core::cmp::PartialOrd::(lt|le|gt|ge)')
def m_provided_partial_ord(I, st, fr, args, path, gargs, t):
    meth = path.rsplit('::', 1)[1]
    return _cmp_via_partial_cmp(I, st, fr, args, gargs[0], gargs[1], meth, t, 0)


@model(r'core::num::<impl ' + INT + r'>::wrapping_(rem|div)')
def m_wrapping_divrem(I, st, fr, args, path, gargs, t):
    m = re.match(r'core::num::<impl ' + INT + r'>::wrapping_(rem|div)', path)
    ty, op = m.group(1), m.group(2)
    a, b = args
    if 0 in st.sign(b.p):
        idx = st.decide(b.p, [ZERO, NONZERO])
        if idx == 0:
            raise PanicExc('DivisionByZero', {'fn': path})
    if op == 'rem':
        return I.divrem(st, 'Rem', a, b, ty)       # MIN % -1 wraps to 0, which is the mathematical remainder
    q = I.divrem(st, 'Div', a, b, ty)
    rlo, rhi = INT_RANGES[ty]
    if st.in_range(q.p, rlo, rhi) is True:
        return q
    return st.fresh(ty, tag='wrapdiv')


_INHERIT = re.compile(r'^(<' + INT + r' as core::ops::(Add|Sub|Mul|Neg|Shl|Shr|AddAssign|SubAssign|MulAssign)>::\w+|core::num::<impl ' + INT + r'>::(abs|pow|next_power_of_two|isqrt|ilog|ilog2|ilog10|strict_\w+))$')


def is_inherit_overflow(path):
    """core functions carrying #[rustc_inherit_overflow_checks]: they panic on overflow only if the *calling crate* is built with overflow checks"""
    return bool(_INHERIT.match(path or ''))


# ----------------------------------------------------------------------------- proc-macro plumbing (Dec!): tokens emitted are recorded as notes
@model(r'proc_macro2::TokenStream::new|core::string::String::remove|core::string::String::(len|is_empty|push_str|push)')
def m_pm_opaque(I, st, fr, args, path, gargs, t):
    return Opaque('pm', path.rsplit('::', 1)[1])


@model(r'core::str::<impl str>::(starts_with|ends_with|contains)')
def m_str_pred(I, st, fr, args, path, gargs, t):
    return K(st.choose(2), 'bool')


@model(r'quote::__private::push_(\w+)')
def m_quote_push(I, st, fr, args, path, gargs, t):
    what = path.rsplit('push_', 1)[1]
    arg = None
    for a in args:
        if isinstance(a, SliceVal) and a.tag.startswith('str:'):
            arg = a.tag[4:]
    st.note(('tok', what, arg))
    return UNIT


@model(r'<' + INT + r' as quote::ToTokens>::to_tokens')
def m_to_tokens(I, st, fr, args, path, gargs, t):
    v = deref(I, st, args[0])
    st.note(('tok', 'lit', pfreeze(st.norm(v.p)), v.ty, st.itv(v)))
    return UNIT


# ----------------------------------------------------------------------------- byte slices (the parser): only the length is tracked; unsafe preconditions are obligations
class PtrVal:
    __slots__ = ('slice',)

    def __init__(self, s):
        self.slice = s

    def __repr__(self):
        return 'Ptr(%r)' % (self.slice,)


def _slice(I, st, v):
    v = deref(I, st, v)
    if not isinstance(v, SliceVal):
        raise Stop('expected a slice, found %r' % (v,))
    return v


@model(r'core::str::<impl core::convert::AsRef<\[u8\]> for str>::as_ref|core::str::<impl str>::as_bytes|<str as core::convert::AsRef<\[u8\]>>::as_ref')
def m_str_as_bytes(I, st, fr, args, path, gargs, t):
    s = _slice(I, st, args[0])
    return SliceVal(s.len, 'bytes')


def _len(I, st, v):
    v = deref(I, st, v)
    if isinstance(v, Agg) and v.kind == 'array':
        return K(len(v.fields), 'usize')          # an array unsized to a slice keeps its element list
    return _slice(I, st, v).len


@model(r'core::slice::<impl \[T\]>::len|core::str::<impl str>::len')
def m_slice_len(I, st, fr, args, path, gargs, t):
    return _len(I, st, args[0])


@model(r'core::slice::<impl \[T\]>::is_empty|core::str::<impl str>::is_empty')
def m_slice_is_empty(I, st, fr, args, path, gargs, t):
    return I.compare(st, 'Eq', _len(I, st, args[0]), K(0, 'usize'))


def _fresh_byte_ref(I, st):
    from .absint import Frame
    b = st.fresh('u8', 0, 255, 'byte')
    key = ('byte', len(st.pframes), id(b))
    st.pframes[key] = Frame(None, None, {0: b})
    return Ref(key, 0, ())


def byte_at(I, st, ln):
    """the byte of a slice that has `ln` bytes left (position counted from the fixed end): one atom per position, so repeated
    reads at the same position agree; exclusions promised by a scanner contract for that position are applied when the atom is made"""
    from .absint import Frame
    fk = pfreeze(st.norm(ln.p))
    key = ('bytepos', fk)
    a = st.atoms.get(('byteat', fk))
    if a not in st.bounds and a not in st.subst:
        st._jset('bounds', a, (0, 255))
        for k_, vs in (st.ghost.get('byte_excl') or {}).items():
            if k_ == fk or pfreeze(st.norm(pthaw(k_))) == fk:
                for v in vs:
                    st.assume(padd(patom(a), pconst(v), -1), NONZERO)
    b = Int('u8', 0, 255, patom(a))
    st.pframes[key] = Frame(None, None, {0: b})
    return Ref(key, 0, ())


@model(r'core::slice::<impl \[T\]>::(first|last)')
def m_slice_first(I, st, fr, args, path, gargs, t):
    ln = _slice(I, st, args[0]).len
    idx = st.decide(ln.p, [ZERO, POS | NEG])
    if idx == 0:
        return none()
    if getattr(I.opts, 'byte_positions', False) and path.endswith('first'):
        sv = _slice(I, st, args[0])
        return some(byte_at(I, st, I.mk(st, 'usize', sv.pos(0), 0, None)))
    return some(_fresh_byte_ref(I, st))


@model(r'core::slice::<impl \[T\]>::get_unchecked')
def m_get_unchecked(I, st, fr, args, path, gargs, t):
    s = _slice(I, st, args[0])
    r = args[1]
    if not (isinstance(r, Agg) and r.kind.endswith('RangeFrom') and len(r.fields) == 1):
        raise Stop('get_unchecked with %r' % (r,))
    n = r.fields[0]
    d = padd(s.len.p, n.p, -1)
    if not st.sign(d) <= NONNEG:
        raise PanicExc('UB', {'fn': path, 'what': 'get_unchecked(n..) requires n <= len; not provable here (len - n sign %s)' % sorted(st.sign(d))})
    return SliceVal(I.mk(st, 'usize', d, 0, None), s.tag)


@model(r'core::slice::<impl \[T\]>::as_ptr')
def m_as_ptr(I, st, fr, args, path, gargs, t):
    return PtrVal(_slice(I, st, args[0]))


@model(r'core::ptr::read_unaligned|core::ptr::const_ptr::<impl \*const T>::read_unaligned')
def m_read_unaligned(I, st, fr, args, path, gargs, t):
    p = args[0]
    ty = gargs[0] if gargs else 'u64'
    size = {'u8': 1, 'u16': 2, 'u32': 4, 'u64': 8, 'u128': 16}.get(ty)
    if not isinstance(p, PtrVal) or size is None:
        raise Stop('read_unaligned(%r) of %s' % (p, ty))
    d = padd(p.slice.len.p, pconst(size), -1)
    if not st.sign(d) <= NONNEG:
        raise PanicExc('UB', {'fn': path, 'what': 'read of %d bytes requires len >= %d; not provable here' % (size, size)})
    if getattr(I.opts, 'byte_positions', False):
        # the word as the bytes at the next `size` positions (memory order; from_le makes lane j the j-th byte on every target)
        from .absint import Lanes
        lanes = []
        for j in range(size):
            ref = byte_at(I, st, I.mk(st, 'usize', p.slice.pos(j), 0, None))
            lanes.append(deref(I, st, ref))
        return Lanes(ty, lanes)
    return st.fresh(ty, tag='rd')


@model(r'<core::option::Option<T> as core::cmp::PartialEq>::(eq|ne)')
def m_option_eq(I, st, fr, args, path, gargs, t):
    a, b = deref(I, st, args[0]), deref(I, st, args[1])
    neg = path.endswith('::ne')
    if not (isinstance(a, Agg) and isinstance(b, Agg)):
        raise Stop('Option eq on %r %r' % (a, b))
    if a.variant != b.variant:
        return K(int(neg), 'bool')
    if a.variant == 0:
        return K(int(not neg), 'bool')
    x, y = deref(I, st, a.fields[0]), deref(I, st, b.fields[0])
    if isinstance(x, Int) and isinstance(y, Int):
        return I.compare(st, 'Ne' if neg else 'Eq', x, y)
    if isinstance(x, Agg) and isinstance(y, Agg) and x.kind == y.kind and x.variant is not None and y.variant is not None and not x.fields and not y.fields:
        # field-less enum payloads (Option<Ordering>): derived equality compares the variants
        return K(int((x.variant == y.variant) != neg), 'bool')
    raise Stop('Option eq payload %r %r' % (x, y))


# ----------------------------------------------------------------------------- further core combinators (robustness against refactorings)
@model(r'core::num::<impl ' + INT + r'>::checked_(neg|abs)')
def m_checked_neg(I, st, fr, args, path, gargs, t):
    m = re.match(r'core::num::<impl ' + INT + r'>::checked_(neg|abs)', path)
    ty, op = m.group(1), m.group(2)
    x = args[0]
    rlo, rhi = INT_RANGES[ty]
    if op == 'abs' and I.sign_split(st, x.p) > 0:
        return some(x)
    p = pneg(x.p)
    if range_split(st, p, rlo, rhi) == 'in':
        return some(I.mk(st, ty, p))
    st.note(('overflows', pfreeze(st.norm(p)), ty))
    return none()


@model(r'core::num::<impl ' + INT + r'>::wrapping_(neg|abs)')
def m_wrapping_neg(I, st, fr, args, path, gargs, t):
    m = re.match(r'core::num::<impl ' + INT + r'>::wrapping_(neg|abs)', path)
    ty, op = m.group(1), m.group(2)
    x = args[0]
    rlo, rhi = INT_RANGES[ty]
    if op == 'abs' and I.sign_split(st, x.p) > 0:
        return x
    p = pneg(x.p)
    r_ = range_split(st, p, rlo, rhi)
    if r_ == 'in':
        return I.mk(st, ty, p)
    # signed: only MIN wraps (to itself); unsigned: every non-zero value wraps once
    return I.mk(st, ty, padd(p, pconst((rhi - rlo + 1) * (1 if r_ == 'below' else -1))))


@model(r'core::num::<impl ' + INT + r'>::checked_(div|rem|div_euclid|rem_euclid)')
def m_checked_divrem(I, st, fr, args, path, gargs, t):
    m = re.match(r'core::num::<impl ' + INT + r'>::checked_(div|rem|div_euclid|rem_euclid)', path)
    ty, op = m.group(1), m.group(2)
    a, b = args
    if 'euclid' in op:
        if 0 in st.sign(b.p):
            if st.decide(b.p, [ZERO, NONZERO]) == 0:
                return none()
        return some(_euclid(I, st, op, a, b, ty))
    if 0 in st.sign(b.p):
        if st.decide(b.p, [ZERO, NONZERO]) == 0:
            return none()
    rlo, rhi = INT_RANGES[ty]
    if rlo < 0 and st.in_range(a.p, rlo + 1, rhi) is not True and 0 in st.sign(padd(b.p, pconst(1))):
        k = st.choose(2)
        if k == 1:
            st.assume(padd(a.p, pconst(rlo), -1), ZERO)
            st.assume(padd(b.p, pconst(1)), ZERO)
            return none()
        # Some: not (a == MIN and b == -1); expressible when the divisor is -1 on this path: then a != MIN
        if st.sign(padd(b.p, pconst(1))) == ZERO:
            st.assume(padd(a.p, pconst(rlo), -1), NONZERO)
    return some(I.divrem(st, 'Div' if op == 'div' else 'Rem', a, b, ty))


@model(r'core::num::<impl ' + INT + r'>::(overflowing)_(add|sub|mul)')
def m_overflowing(I, st, fr, args, path, gargs, t):
    m = re.match(r'core::num::<impl ' + INT + r'>::overflowing_(add|sub|mul)', path)
    ty, op = m.group(1), m.group(2).capitalize()
    p = I.arith_poly(st, op, args[0], args[1])
    rlo, rhi = INT_RANGES[ty]
    r = range_split(st, p, rlo, rhi)
    if r == 'in':
        return Agg('tuple', None, (I.mk(st, ty, p), K(0, 'bool')))
    return Agg('tuple', None, (st.fresh(ty, tag='ovf'), K(1, 'bool')))


@model(r'core::num::<impl ' + INT + r'>::saturating_(add|mul)')
def m_saturating(I, st, fr, args, path, gargs, t):
    m = re.match(r'core::num::<impl ' + INT + r'>::saturating_(add|mul)', path)
    ty, op = m.group(1), m.group(2).capitalize()
    p = I.arith_poly(st, op, args[0], args[1])
    rlo, rhi = INT_RANGES[ty]
    r = range_split(st, p, rlo, rhi)
    if r == 'in':
        return I.mk(st, ty, p)
    return K(rlo if r == 'below' else rhi, ty)


@model(r'core::num::<impl ' + INT + r'>::(min_value|max_value)')
def m_minmax_value(I, st, fr, args, path, gargs, t):
    ty = re.match(r'core::num::<impl ' + INT, path).group(1)
    return K(INT_RANGES[ty][0 if path.endswith('min_value') else 1], ty)


@model(r'core::option::Option::<T>::(unwrap_or|unwrap_or_default)')
def m_unwrap_or(I, st, fr, args, path, gargs, t):
    v = args[0]
    if v.variant == 1:
        return v.fields[0]
    if path.endswith('unwrap_or'):
        return args[1]
    ty = gargs[0] if gargs else ''
    if ty in INT_RANGES:
        return K(0, ty)
    if ty == '&str':
        return SliceVal(K(0, 'usize'), 'str:')
    # <T as Default>::default() of a workspace type (summaries apply, e.g. the thread's rounding mode)
    from .db import strip_lt
    dfn = I.db.find_impl_fn('core::default::Default', [strip_lt(ty)], 'default')
    if dfn is None:
        for f_ in I.db.fns.values():
            im = f_.get('impl') or {}
            if f_['name'] == 'default' and (im.get('trait') or '').endswith('default::Default') and (im.get('self') or '').endswith(ty.rsplit('::', 1)[-1]):
                dfn = f_
    if dfn is not None:
        return I.push_closure(st, fr, FnVal({'fn': dfn['id'], 'path': dfn.get('path', dfn['id'])}), [], t['dest'], t['target'])
    raise Stop('unwrap_or_default of %s' % ty)


@model(r'core::option::Option::<T>::(ok_or)')
def m_ok_or(I, st, fr, args, path, gargs, t):
    v = args[0]
    if v.variant == 1:
        return Agg(RESULT, 0, (v.fields[0],))
    return Agg(RESULT, 1, (args[1],))


@model(r'core::option::Option::<T>::(and_then|map_or|map_or_else|unwrap_or_else|ok_or_else|filter|is_some_and|or_else)')
def m_opt_closure(I, st, fr, args, path, gargs, t):
    name = path.rsplit('::', 1)[1]
    v = args[0]
    if name == 'and_then':
        if v.variant == 0:
            return none()
        return I.push_closure(st, fr, args[1], [v.fields[0]], t['dest'], t['target'])
    if name == 'unwrap_or_else':
        if v.variant == 1:
            return v.fields[0]
        return I.push_closure(st, fr, args[1], [], t['dest'], t['target'])
    if name == 'ok_or_else':
        if v.variant == 1:
            return Agg(RESULT, 0, (v.fields[0],))
        return I.push_closure(st, fr, args[1], [], t['dest'], t['target'], on_return=lambda I_, st_, r: Agg(RESULT, 1, (r,)))
    if name == 'map_or':
        if v.variant == 0:
            return args[1]
        return I.push_closure(st, fr, args[2], [v.fields[0]], t['dest'], t['target'])
    if name == 'or_else':
        if v.variant == 1:
            return v
        return I.push_closure(st, fr, args[1], [], t['dest'], t['target'])
    if name == 'map_or_else':
        if v.variant == 0:
            return I.push_closure(st, fr, args[1], [], t['dest'], t['target'])
        return I.push_closure(st, fr, args[2], [v.fields[0]], t['dest'], t['target'])
    if name in ('filter', 'is_some_and'):
        if v.variant == 0:
            return none() if name == 'filter' else K(0, 'bool')
        x = v.fields[0]
        arg = ref_to(I, st, x) if name == 'filter' else x
        if name == 'filter':
            return I.push_closure(st, fr, args[1], [arg], t['dest'], t['target'], then=lambda I_, st_, fr_, r: (some(x) if st_.truth(r) else none()))
        return I.push_closure(st, fr, args[1], [arg], t['dest'], t['target'])
    raise Stop('Option::%s' % name)


def ref_to(I, st, v):
    """a reference to a temporary holding v"""
    from .absint import Frame
    key = ('tmp', len(st.pframes), id(v))
    st.pframes[key] = Frame(None, None, {0: v})
    return Ref(key, 0, ())


@model(r'core::option::Option::<T>::(xor|or|and|zip)')
def m_opt_binary(I, st, fr, args, path, gargs, t):
    name = path.rsplit('::', 1)[1]
    a, b = args[0], args[1]
    if name == 'xor':
        if a.variant == 1 and b.variant == 0:
            return a
        if a.variant == 0 and b.variant == 1:
            return b
        return none()
    if name == 'or':
        return a if a.variant == 1 else b
    if name == 'and':
        return b if a.variant == 1 else none()
    if a.variant == 1 and b.variant == 1:
        return some(Agg('tuple', None, (a.fields[0], b.fields[0])))
    return none()


@model(r'core::option::Option::<core::result::Result<T, E>>::transpose')
def m_opt_transpose(I, st, fr, args, path, gargs, t):
    v = args[0]
    if v.variant == 0:
        return Agg(RESULT, 0, (none(),))
    r = v.fields[0]
    if r.variant == 0:
        return Agg(RESULT, 0, (some(r.fields[0]),))
    return Agg(RESULT, 1, (r.fields[0],))


@model(r'core::option::Option::<core::option::Option<T>>::flatten')
def m_opt_flatten(I, st, fr, args, path, gargs, t):
    v = args[0]
    return v.fields[0] if v.variant == 1 else none()


@model(r'core::result::Result::<T, E>::(map_or|map_or_else|or_else|ok_or|unwrap_or_default)')
def m_result_closure2(I, st, fr, args, path, gargs, t):
    name = path.rsplit('::', 1)[1]
    v = args[0]
    if name == 'map_or':
        if v.variant == 1:
            return args[1]
        return I.push_closure(st, fr, args[2], [v.fields[0]], t['dest'], t['target'])
    if name == 'map_or_else':
        if v.variant == 1:
            return I.push_closure(st, fr, args[1], [v.fields[0]], t['dest'], t['target'])
        return I.push_closure(st, fr, args[2], [v.fields[0]], t['dest'], t['target'])
    if name == 'or_else':
        if v.variant == 0:
            return v
        return I.push_closure(st, fr, args[1], [v.fields[0]], t['dest'], t['target'])
    raise Stop('Result::%s' % name)


@model(r'core::num::<impl ' + INT + r'>::abs_diff')
def m_abs_diff(I, st, fr, args, path, gargs, t):
    ty = re.match(r'core::num::<impl ' + INT, path).group(1)
    uty = 'u' + ty[1:] if ty[0] == 'i' else ty
    d = padd(args[0].p, args[1].p, -1)
    s = st.decide(d, [NONNEG, NEG])
    return I.mk(st, uty, d if s == 0 else pneg(d), 0, None)


# ----------------------------------------------------------------------------- folds over finite, concretely known sequences (integer ranges, arrays)
def _seq_items(I, st, it):
    """the items of an iterator value whose length is concrete: an integer Range with constant bounds, or an array iterator"""
    v = deref(I, st, it) if isinstance(it, Ref) else it
    if isinstance(v, Agg) and v.kind.endswith('Range') and len(v.fields) == 2 and isinstance(v.fields[0], Int) and isinstance(v.fields[1], Int):
        (a, a2), (b, b2) = st.itv(v.fields[0]), st.itv(v.fields[1])
        if a == a2 and b == b2 and b - a <= 256:
            return [K(i, v.fields[0].ty) for i in range(a, max(a, b))]
    if isinstance(v, Agg) and v.kind == 'seq':
        return list(v.fields)
    raise Stop('iteration over %r is not a finite, concretely known sequence' % (v,))


@model(r'core::slice::<impl \[T\]>::iter')
def m_slice_iter(I, st, fr, args, path, gargs, t):
    v = deref(I, st, args[0])
    if isinstance(v, Agg) and v.kind == 'array':
        return Agg('seq', None, tuple(ref_to(I, st, x) for x in v.fields))
    raise Stop('iter() over %r' % (v,))


@model(r'core::slice::<impl \[T\]>::iter_mut')
def m_slice_iter_mut(I, st, fr, args, path, gargs, t):
    r = args[0]
    v = deref(I, st, r)
    if isinstance(r, Ref) and isinstance(v, Agg) and v.kind == 'array':
        return Agg('seq', None, tuple(Ref(r.frame, r.local, list(r.proj) + [{'cindex': i}]) for i in range(len(v.fields))))
    raise Stop('iter_mut() over %r' % (v,))


@model(r'core::iter::Iterator::zip|<.* as core::iter::Iterator>::zip')
def m_iter_zip(I, st, fr, args, path, gargs, t):
    a, b = _seq_items(I, st, args[0]), _seq_items(I, st, args[1])
    return Agg('seq', None, tuple(Agg('tuple', None, (x, y)) for x, y in zip(a, b)))


@model(r'core::iter::Iterator::rev|<.* as core::iter::Iterator>::rev')
def m_iter_rev(I, st, fr, args, path, gargs, t):
    return Agg('seq', None, tuple(reversed(_seq_items(I, st, args[0]))))


def _fold_seq(I, st, fr, f, acc, items, dest, target, kind):
    """kind 'fold': plain accumulator; 'try': the closure returns Option / Result / ControlFlow and a failure ends the fold"""
    if not items:
        if kind == 'fold':
            return acc
        return acc          # already wrapped by the caller of the last step (see below)
    def then(I_, st_, fr_, r, rest=items[1:]):
        if kind == 'fold':
            return _fold_seq(I_, st_, fr_, f, r, rest, dest, target, kind)
        if not (isinstance(r, Agg) and r.kind in (OPTION, RESULT, CONTROLFLOW)):
            raise Stop('try_fold step returned %r' % (r,))
        good = (r.kind == OPTION and r.variant == 1) or (r.kind == RESULT and r.variant == 0) or (r.kind == CONTROLFLOW and r.variant == 0)
        if not good:
            return r
        if not rest:
            return r
        return _fold_seq(I_, st_, fr_, f, r.fields[0], rest, dest, target, kind)
    return I.push_closure(st, fr, f, [acc, items[0]], dest, target, then=then)


@model(r'core::iter::Iterator::(fold|try_fold)|<.* as core::iter::Iterator>::(fold|try_fold)')
def m_iter_fold(I, st, fr, args, path, gargs, t):
    name = path.rsplit('::', 1)[1]
    items = _seq_items(I, st, args[0])
    init, f = args[1], args[2]
    if name == 'fold':
        if not items:
            return init
        return _fold_seq(I, st, fr, f, init, items, t['dest'], t['target'], 'fold')
    if not items:
        # R::from_output(init): the return type decides the wrapper; the closure's declared return type is the last generic argument
        rty = gargs[-1] if gargs else ''
        if 'Option' in rty:
            return some(init)
        if 'Result' in rty:
            return Agg(RESULT, 0, (init,))
        raise Stop('try_fold over an empty sequence with return type %s' % rty)
    return _fold_seq(I, st, fr, f, init, items, t['dest'], t['target'], 'try')


@model(r'core::result::Result::<T, E>::(ok|err|is_ok|is_err|unwrap_or)')
def m_result_simple(I, st, fr, args, path, gargs, t):
    name = path.rsplit('::', 1)[1]
    v = deref(I, st, args[0])
    if name == 'ok':
        return some(v.fields[0]) if v.variant == 0 else none()
    if name == 'err':
        return some(v.fields[0]) if v.variant == 1 else none()
    if name == 'is_ok':
        return K(int(v.variant == 0), 'bool')
    if name == 'is_err':
        return K(int(v.variant == 1), 'bool')
    return v.fields[0] if v.variant == 0 else args[1]


@model(r'core::result::Result::<T, E>::(map|map_err|and_then|unwrap_or_else)')
def m_result_closure(I, st, fr, args, path, gargs, t):
    name = path.rsplit('::', 1)[1]
    v = args[0]
    if name == 'map':
        if v.variant == 1:
            return v
        return I.push_closure(st, fr, args[1], [v.fields[0]], t['dest'], t['target'], on_return=lambda I_, st_, r: Agg(RESULT, 0, (r,)))
    if name == 'map_err':
        if v.variant == 0:
            return v
        return I.push_closure(st, fr, args[1], [v.fields[0]], t['dest'], t['target'], on_return=lambda I_, st_, r: Agg(RESULT, 1, (r,)))
    if name == 'and_then':
        if v.variant == 1:
            return v
        return I.push_closure(st, fr, args[1], [v.fields[0]], t['dest'], t['target'])
    if v.variant == 0:
        return v.fields[0]
    return I.push_closure(st, fr, args[1], [v.fields[0]], t['dest'], t['target'])


@model(r'core::result::Result::<T, E>::(unwrap|expect)')
def m_result_unwrap(I, st, fr, args, path, gargs, t):
    v = args[0]
    if v.variant == 0:
        return v.fields[0]
    raise PanicExc('unwrap-err', {'fn': path})


@model(r'core::mem::(replace|take)')
def m_mem_replace(I, st, fr, args, path, gargs, t):
    r = args[0]
    old = deref(I, st, r)
    if path.endswith('take'):
        raise Stop('mem::take')
    tf = I.frame_of(st, r.frame)
    tf.L[r.local] = I.updated(st, tf, tf.L.get(r.local), list(r.proj), args[1])
    return old


@model(r'core::cmp::Ord::(max|min|clamp)')
def m_ord_provided(I, st, fr, args, path, gargs, t):
    name = path.rsplit('::', 1)[1]
    if all(isinstance(a, Int) for a in args):
        if name == 'clamp':
            raise Stop('clamp')
        d = padd(args[0].p, args[1].p, -1)
        idx = st.decide(d, [NONPOS, POS])
        if name == 'min':
            return args[0] if idx == 0 else args[1]
        return args[1] if idx == 0 else args[0]
    raise Stop('Ord::%s on non-integers' % name)


@model(r'core::ops::function::(FnOnce::call_once|FnMut::call_mut|Fn::call)')
def m_fn_call(I, st, fr, args, path, gargs, t):
    f = args[0]
    tup = args[1]
    cargs = list(tup.fields) if isinstance(tup, Agg) else []
    if isinstance(f, Ref):
        f = deref(I, st, f)
    return I.push_closure(st, fr, f, cargs, t['dest'], t['target'])


@model(r'core::hint::(black_box|assert_unchecked|unreachable_unchecked)|core::intrinsics::(likely|unlikely|cold_path)')
def m_hints(I, st, fr, args, path, gargs, t):
    if path.endswith('unreachable_unchecked'):
        raise Infeasible()
    return args[0] if args else UNIT


def _euclid(I, st, op, a, b, ty):
    """div_euclid / rem_euclid from the truncating pair: r < 0 -> r + |b|, q -/+ 1"""
    q = I.divrem(st, 'Div', a, b, ty)
    r = I.divrem(st, 'Rem', a, b, ty)
    neg = st.decide(r.p, [NEG, NONNEG]) == 0
    if not neg:
        return q if op.startswith('div') else r
    bpos = st.decide(b.p, [NEG, POS]) == 1
    if op.startswith('div'):
        return I.mk(st, ty, padd(q.p, pconst(1), -1 if bpos else 1))
    return I.mk(st, ty, padd(r.p, b.p, 1 if bpos else -1))


@model(r'core::num::<impl ' + INT + r'>::(div_euclid|rem_euclid)')
def m_euclid(I, st, fr, args, path, gargs, t):
    m = re.match(r'core::num::<impl ' + INT + r'>::(div_euclid|rem_euclid)', path)
    ty, op = m.group(1), m.group(2)
    a, b = args
    if 0 in st.sign(b.p):
        if st.decide(b.p, [ZERO, NONZERO]) == 0:
            raise PanicExc('DivisionByZero', {'fn': path})
    return _euclid(I, st, op, a, b, ty)


@model(r'core::slice::<impl \[T\]>::get')
def m_slice_get(I, st, fr, args, path, gargs, t):
    v = deref(I, st, args[0])
    idx = args[1]
    if isinstance(v, Agg) and v.kind == 'array' and isinstance(idx, Int):
        n = len(v.fields)
        inb = st.decide(padd(idx.p, pconst(n), -1), [NEG, NONNEG]) == 0
        if not inb:
            return none()
        lo, hi = st.itv(idx)
        if lo == hi:
            el = v.fields[lo]
        else:
            els = v.fields[max(lo, 0):min(hi, n - 1) + 1]
            if not all(isinstance(e_, Int) for e_ in els):
                raise Stop('slice get of non-integers with symbolic index')
            el = st.fresh(els[0].ty, min(e_.lo for e_ in els), max(e_.hi for e_ in els), 'elem')
        from .absint import Frame
        key = ('elem', len(st.pframes), id(el))
        st.pframes[key] = Frame(None, None, {0: el})
        return some(Ref(key, 0, ()))
    if isinstance(v, SliceVal) and isinstance(idx, Agg) and idx.kind.endswith('RangeTo') and len(idx.fields) == 1 and isinstance(idx.fields[0], Int):
        # s.get(..n): the first n elements if there are that many
        n = idx.fields[0]
        d = padd(v.len.p, n.p, -1)
        if st.decide(d, [NONNEG, NEG]) == 1:
            return none()
        return some(SliceVal(n, v.tag, st.norm(padd(v.tail or {}, d))))
    raise Stop('slice get on %r' % (v,))


@model(r'core::array::<impl core::convert::TryFrom<&\[T\]> for \[T; N\]>::try_from|core::array::<impl core::convert::TryFrom<&.*\[T\]> for \[T; N\]>::try_from')
def m_array_try_from_slice(I, st, fr, args, path, gargs, t):
    v = deref(I, st, args[0])
    if not isinstance(v, SliceVal):
        raise Stop('array try_from %r' % (v,))
    n = None
    for g in gargs:
        if str(g).isdigit():
            n = int(g)
    lo, hi = st.itv(v.len)
    if n is None or lo != hi:
        raise Stop('array try_from a slice of unknown length')
    if lo != n:
        return Agg(RESULT, 1, (Agg('core::array::TryFromSliceError', 0, (UNIT,)),))
    if getattr(I.opts, 'byte_positions', False):
        els = [deref(I, st, byte_at(I, st, I.mk(st, 'usize', v.pos(j), 0, None))) for j in range(n)]
    else:
        els = [st.fresh('u8', 0, 255, 'byte') for _ in range(n)]
    return Agg(RESULT, 0, (Agg('array', None, tuple(els)),))


@model(r'core::num::<impl u(16|32|64|128)>::from_le_bytes')
def m_from_le_bytes(I, st, fr, args, path, gargs, t):
    from .absint import Lanes
    v = args[0]
    ty = 'u' + re.search(r'<impl u(\d+)>', path).group(1)
    if isinstance(v, Agg) and v.kind == 'array' and all(isinstance(x, Int) for x in v.fields):
        return Lanes(ty, v.fields)
    raise Stop('from_le_bytes of %r' % (v,))


@model(r'core::option::Option::<&T>::(copied|cloned)|core::option::Option::<&mut T>::(copied|cloned)')
def m_opt_copied(I, st, fr, args, path, gargs, t):
    v = args[0]
    if v.variant == 0:
        return none()
    return some(deref(I, st, v.fields[0]))


# ----------------------------------------------------------------------------- floats: a float value is its bit pattern
@model(r'core::f(32|64)::<impl f(32|64)>::from_bits')
def m_float_from_bits(I, st, fr, args, path, gargs, t):
    ty = 'f64' if 'f64' in path else 'f32'
    return Agg('float:' + ty, None, (args[0],))


@model(r'core::f(32|64)::<impl f(32|64)>::to_bits')
def m_float_to_bits(I, st, fr, args, path, gargs, t):
    v = args[0]
    if isinstance(v, Agg) and v.kind.startswith('float:'):
        return v.fields[0]
    raise Stop('to_bits of %r' % (v,))


def _float_fields(v):
    """(format, bits Int, exponent bits, fraction bits) of a float value given as its bit pattern"""
    if isinstance(v, Agg) and v.kind in ('float:f64', 'float:f32') and isinstance(v.fields[0], Int):
        return (v.kind[6:], v.fields[0]) + ((11, 52) if v.kind.endswith('f64') else (8, 23))
    raise Stop('float value without a bit pattern: %r' % (v,))


@model(r'core::f(32|64)::<impl f(32|64)>::(is_nan|is_infinite|is_finite)')
def m_float_class(I, st, fr, args, path, gargs, t):
    # IEEE 754: exponent field all ones: fraction == 0 -> infinity, != 0 -> NaN
    fl, bits, eb, fb = _float_fields(args[0])
    mag = I.divrem(st, 'Rem', bits, K(2 ** (eb + fb), bits.ty), bits.ty)          # without the sign bit
    expo = I.mk(st, bits.ty, I.tdiv_atom(st, st.norm(mag.p), pconst(2 ** fb)))
    allones = st.decide(padd(expo.p, pconst(2 ** eb - 1), -1), [ZERO, NEG | POS]) == 0
    what = path.rsplit('::', 1)[1]
    if not allones:
        return K(1 if what == 'is_finite' else 0, 'bool')
    frac = I.divrem(st, 'Rem', mag, K(2 ** fb, bits.ty), bits.ty)
    zero = st.decide(frac.p, [ZERO, NEG | POS]) == 0
    if what == 'is_finite':
        return K(0, 'bool')
    return K(int(zero if what == 'is_infinite' else not zero), 'bool')


# ----------------------------------------------------------------------------- `for i in a..b`: the half-open integer range as an iterator
@model(r'<I as core::iter::IntoIterator>::into_iter')
def m_into_iter_identity(I, st, fr, args, path, gargs, t):
    # the blanket impl for iterators: identity
    return args[0]


@model(r'core::iter::range::<impl core::iter::Iterator for core::ops::Range<A>>::next|<core::ops::Range<\w+> as core::iter::Iterator>::next')
def m_range_next(I, st, fr, args, path, gargs, t):
    r = args[0]
    if not isinstance(r, Ref):
        raise Stop('Range::next on %r' % (r,))
    v = deref(I, st, r)
    if not (isinstance(v, Agg) and v.kind.endswith('Range') and len(v.fields) == 2 and isinstance(v.fields[0], Int) and isinstance(v.fields[1], Int)):
        raise Stop('Range::next on %r' % (v,))
    start, end = v.fields
    more = st.truth(I.compare(st, 'Lt', start, end))
    if not more:
        return none()
    nxt = I.mk(st, start.ty, padd(start.p, pconst(1)))          # start < end <= MAX: no overflow
    tf = I.frame_of(st, r.frame)
    tf.L[r.local] = I.updated(st, tf, tf.L.get(r.local), list(r.proj), Agg(v.kind, v.variant, (nxt, end)))
    return some(start)


@model(r'core::string::String::as_bytes|alloc::string::String::as_bytes')
def m_string_as_bytes(I, st, fr, args, path, gargs, t):
    v = deref(I, st, args[0])
    if isinstance(v, SliceVal):
        return SliceVal(v.len, 'bytes')
    return SliceVal(st.fresh('usize', 0, 2 ** 62, 'strlen'), 'bytes')


# ----------------------------------------------------------------------------- small additions (idioms seen in behaviour-preserving rewrites)
@model(r'core::cmp::Ordering::then')
def m_ordering_then(I, st, fr, args, path, gargs, t):
    a, b = args
    if isinstance(a, Agg) and a.variant is not None:
        return b if a.variant == 1 else a          # Equal (index 1: Less = -1, Equal = 0, Greater = 1 -> variant indices 0, 1, 2)
    raise Stop('Ordering::then on %r' % (a,))


@model(r'core::cmp::Ordering::then_with')
def m_ordering_then_with(I, st, fr, args, path, gargs, t):
    a = args[0]
    if isinstance(a, Agg) and a.variant is not None:
        if a.variant != 1:
            return a
        return I.push_closure(st, fr, args[1], [], t['dest'], t['target'])
    raise Stop('Ordering::then_with on %r' % (a,))


@model(r'core::convert::identity')
def m_identity(I, st, fr, args, path, gargs, t):
    return args[0]


@model(r'core::option::Option::<T>::(take|replace)')
def m_opt_take(I, st, fr, args, path, gargs, t):
    r = args[0]
    if not isinstance(r, Ref):
        raise Stop('Option::take on %r' % (r,))
    old = deref(I, st, r)
    new = none() if path.endswith('take') else some(args[1])
    tf = I.frame_of(st, r.frame)
    tf.L[r.local] = I.updated(st, tf, tf.L.get(r.local), list(r.proj), new)
    return old


@model(r'core::option::Option::<T>::(as_ref|as_mut)')
def m_opt_as_ref(I, st, fr, args, path, gargs, t):
    r = args[0]
    v = deref(I, st, r)
    if not (isinstance(r, Ref) and isinstance(v, Agg)):
        raise Stop('Option::as_ref on %r' % (r,))
    if v.variant == 0:
        return none()
    return some(Ref(r.frame, r.local, list(r.proj) + [{'downcast': 1}, {'field': 0}]))


@model(r'core::option::Option::<T>::is_none_or')
def m_opt_is_none_or(I, st, fr, args, path, gargs, t):
    v = args[0]
    if v.variant == 0:
        return K(1, 'bool')
    return I.push_closure(st, fr, args[1], [v.fields[0]], t['dest'], t['target'])


@model(r'core::result::Result::<T, E>::is_(ok|err)_and')
def m_res_is_and(I, st, fr, args, path, gargs, t):
    v = args[0]
    want = 0 if 'is_ok_and' in path else 1
    if v.variant != want:
        return K(0, 'bool')
    return I.push_closure(st, fr, args[1], [v.fields[0]], t['dest'], t['target'])


@model(r'core::num::<impl ' + INT + r'>::(checked_shl|checked_shr|wrapping_shl|wrapping_shr)')
def m_checked_shift(I, st, fr, args, path, gargs, t):
    m = re.match(r'core::num::<impl ' + INT + r'>::(checked|wrapping)_(shl|shr)', path)
    ty, mode, op = m.group(1), m.group(2), m.group(3)
    bits = {'8': 8, '16': 16, '32': 32, '64': 64, '128': 128, 'size': 64}[ty[1:]]
    klo, khi = st.itv(args[1])
    if klo != khi:
        raise Stop('%s with a symbolic shift amount' % path)
    if klo >= bits:
        if mode == 'checked':
            return none()
        klo %= bits
    v = I.shift(st, 'Shl' if op == 'shl' else 'Shr', args[0], K(klo, 'u32'), ty)
    return some(v) if mode == 'checked' else v


@model(r'core::num::<impl ' + INT + r'>::(cast_signed|cast_unsigned)')
def m_cast_sign(I, st, fr, args, path, gargs, t):
    ty = re.match(r'core::num::<impl ' + INT, path).group(1)
    to = ('i' if ty[0] == 'u' else 'u') + ty[1:]
    return I.cast(st, 'IntToInt', args[0], to)


@model(r'core::num::<impl ' + INT + r'>::is_power_of_two')
def m_is_pow2(I, st, fr, args, path, gargs, t):
    lo, hi = st.itv(args[0])
    if lo == hi:
        return K(int(lo > 0 and lo & (lo - 1) == 0), 'bool')
    raise Stop('is_power_of_two of a symbolic value')


@model(r'<T as core::convert::TryInto<U>>::try_into')
def m_try_into(I, st, fr, args, path, gargs, t):
    # blanket impl: U::try_from(self)
    tys = [g for g in gargs if not g.startswith("'")]
    if len(tys) >= 2 and tys[0] in INT_RANGES and tys[1] in INT_RANGES:
        return m_try_from_int(I, st, fr, args, 'core::convert::num::<impl core::convert::TryFrom<%s> for %s>::try_from' % (tys[0], tys[1]), gargs, t)
    raise Stop('try_into %s' % (gargs,))


# ----------------------------------------------------------------------------- Hash: the sequence of primitive values fed to the hasher (ghost trace)
def _hash_feed(I, st, v):
    if isinstance(v, Int):
        st.ghost = dict(st.ghost, hashed=tuple(st.ghost.get('hashed', ())) + ((v.ty, pfreeze(st.norm(v.p))),))
    elif isinstance(v, Agg) and v.kind == 'tuple':
        for f in v.fields:          # the tuple impls of core hash their elements in order
            _hash_feed(I, st, f)
    else:
        raise Stop('Hash::hash of %r' % (v,))


@model(r'core::hash::impls::<impl core::hash::Hash for (' + INT + r'|\(T, B\)|\(T, B, C\))>::hash')
def m_hash_prim(I, st, fr, args, path, gargs, t):
    _hash_feed(I, st, deref(I, st, args[0]))
    return UNIT


@model(r'core::ops::Range::<Idx>::contains|core::ops::range::Range::<Idx>::contains|core::ops::RangeInclusive::<Idx>::contains|core::ops::range::RangeInclusive::<Idx>::contains')
def m_range_contains(I, st, fr, args, path, gargs, t):
    # (a..b).contains(&x) = a <= x && x < b   /   (a..=b).contains(&x) = a <= x && x <= b   (seen in debug_assert!s added by defensive rewrites)
    r, x = deref(I, st, args[0]), deref(I, st, args[1])
    if not (isinstance(r, Agg) and len(r.fields) >= 2 and isinstance(r.fields[0], Int) and isinstance(r.fields[1], Int) and isinstance(x, Int)):
        raise Stop('Range::contains on %r' % (r,))
    incl = 'RangeInclusive' in path or r.kind.endswith('RangeInclusive')
    if not st.truth(I.compare(st, 'Le', r.fields[0], x)):
        return K(0, 'bool')
    return K(int(st.truth(I.compare(st, 'Le' if incl else 'Lt', x, r.fields[1]))), 'bool')
