"""Exact bounded-variable dual simplex over the rationals (small, sparse problems).

Used by the abstract domain as a polyhedral refinement: the facts of a path are interval constraints on linear
forms over *monomials* (products of atoms are treated as independent variables - a sound relaxation), and the bound
of a polynomial over that polytope is a bound of its value.  Every intermediate dual-feasible basis yields a valid
bound (weak duality), so the iteration cap is sound: it only costs precision.

minimise  c.x   subject to   l_j <= x_j <= u_j (finite),   lo_i <= a_i.x <= hi_i (one side may be None)
"""
from fractions import Fraction


class Infeasible(Exception):
    pass


def lp_min(c, vbounds, rows, stop_at=None, max_iter=400):
    """c: {var: coeff}; vbounds: {var: (l, u)} finite ints; rows: list of ({var: coeff}, lo, hi).
    Returns a Fraction lower bound of min c.x (the optimum unless the iteration cap was hit or stop_at reached).
    Raises Infeasible if the constraints are contradictory."""
    F = Fraction
    nvar = list(vbounds)
    # variable records: bounds, for nonbasic: which bound it sits at
    lo = dict((v, F(b[0])) for v, b in vbounds.items())
    hi = dict((v, F(b[1])) for v, b in vbounds.items())
    T = {}          # basic var -> {nonbasic var: coeff}
    for i, (a, rlo, rhi) in enumerate(rows):
        s = ('s', i)
        lo[s] = None if rlo is None else F(rlo)
        hi[s] = None if rhi is None else F(rhi)
        T[s] = dict((v, F(k)) for v, k in a.items() if k)
    d = dict((v, F(c.get(v, 0))) for v in nvar)      # reduced costs of the nonbasic variables
    z0 = F(0)
    at = {}         # nonbasic var -> its current value (one of its bounds)
    for v in nvar:
        at[v] = lo[v] if d[v] >= 0 else hi[v]

    def objective():
        """the bound certified by the current reduced costs, checked independently of the pivoting:
        c.x = sum_j d_j * (x_j | a_i.x) as linear forms, hence c.x >= sum_j d_j * (lower bound if d_j > 0 else upper bound)"""
        expr = {}
        bound = F(0)
        for j, dj in d.items():
            if not dj:
                continue
            b = lo[j] if dj > 0 else hi[j]
            if b is None:
                return None
            bound += dj * b
            if isinstance(j, tuple) and j and j[0] == 's':
                for v, k in rows[j[1]][0].items():
                    expr[v] = expr.get(v, 0) + dj * k
            else:
                expr[j] = expr.get(j, 0) + dj
        for v in set(expr) | set(c):
            if expr.get(v, 0) != c.get(v, 0):
                return None
        return bound

    for _ in range(max_iter):
        # values of the basic variables, most violated one leaves
        worst = None
        for b, row in T.items():
            val = sum(k * at[v] for v, k in row.items())
            if lo[b] is not None and val < lo[b]:
                viol = lo[b] - val
                if worst is None or viol > worst[0]:
                    worst = (viol, b, 'lo')
            elif hi[b] is not None and val > hi[b]:
                viol = val - hi[b]
                if worst is None or viol > worst[0]:
                    worst = (viol, b, 'hi')
        if worst is None:
            return objective()
        if stop_at is not None:
            ob = objective()
            if ob is not None and ob >= stop_at:
                return ob
        _, r, side = worst
        row = T[r]
        best = None
        for j, a in row.items():
            if a == 0 or lo[j] == hi[j] and lo[j] is not None:
                continue
            at_lower = (at[j] == lo[j]) if lo[j] is not None else False
            at_upper = (at[j] == hi[j]) if hi[j] is not None else False
            # may x_j move in a direction that repairs x_r ?
            if side == 'lo':
                ok = (a > 0 and at_lower and (hi[j] is None or hi[j] > lo[j])) or (a < 0 and at_upper)
            else:
                ok = (a < 0 and at_lower and (hi[j] is None or hi[j] > lo[j])) or (a > 0 and at_upper)
            if lo[j] is not None and hi[j] is not None and lo[j] == hi[j]:
                ok = False
            if not ok:
                continue
            ratio = abs(d[j]) / abs(a)
            if best is None or ratio < best[0] or (ratio == best[0] and str(j) < str(best[1])):
                best = (ratio, j)
        if best is None:
            raise Infeasible()
        q = best[1]
        a_q = row[q]
        # x_r = sum_j row[j] x_j   =>   x_q = (x_r - sum_{j != q} row[j] x_j) / a_q
        new_row = dict((j, -k / a_q) for j, k in row.items() if j != q)
        new_row[r] = 1 / a_q
        del T[r]
        for b, brow in T.items():
            k = brow.pop(q, None)
            if k:
                for j, kk in new_row.items():
                    nv = brow.get(j, 0) + k * kk
                    if nv:
                        brow[j] = nv
                    else:
                        brow.pop(j, None)
        T[q] = new_row
        dq = d.pop(q)
        # objective: z = z0 + sum d_j x_j ; substitute x_q
        if dq:
            for j, kk in new_row.items():
                nv = d.get(j, 0) + dq * kk
                d[j] = nv
        d.setdefault(r, F(0))
        del at[q]
        at[r] = lo[r] if side == 'lo' else hi[r]
    return objective()
