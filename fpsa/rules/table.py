"""R-TABLE: the power-of-ten helpers return exactly 10^n (evaluated through the MIR and the evaluated constant table)."""
from ..absint import Interp, Opts, K, Int, Agg, OPTION
from ..db import span_str

CORE = 'fpdec_core::powers_of_ten::'


def run(rep, db):
    I = Interp(db, Opts())
    tp = db.fns.get(CORE + 'ten_pow')
    ctp = db.fns.get(CORE + 'checked_ten_pow')
    rep.ob('R-TABLE', 'helpers-exist', tp is not None and ctp is not None, 'ten_pow / checked_ten_pow present in fpdec-core')
    if tp is None or ctp is None:
        return
    bad = []
    for n in range(39):
        st = I.new_state()
        I.call_root(st, tp, [K(n, 'u8')])
        outs = I.explore(st)
        ok = len(outs) == 1 and outs[0].kind == 'ret' and isinstance(outs[0].value, Int) and (outs[0].value.lo, outs[0].value.hi) == (10**n, 10**n)
        if not ok:
            bad.append('ten_pow(%d) -> %s' % (n, outs))
    rep.ob('R-TABLE', 'ten_pow(0..=38)', not bad, '; '.join(bad[:3]) or 'ten_pow(n) = 10^n for n in 0..=38', site=span_str(tp.get('span')))
    bad = []
    for n in range(39):
        st = I.new_state()
        I.call_root(st, ctp, [K(n, 'u8')])
        outs = I.explore(st)
        ok = (len(outs) == 1 and outs[0].kind == 'ret' and isinstance(outs[0].value, Agg) and outs[0].value.kind == OPTION
              and outs[0].value.variant == 1 and (outs[0].value.fields[0].lo, outs[0].value.fields[0].hi) == (10**n, 10**n))
        if not ok:
            bad.append('checked_ten_pow(%d) -> %s' % (n, outs))
    st = I.new_state()
    I.call_root(st, ctp, [st.sym('n', 39, 255, 'u8')])
    outs = I.explore(st)
    ok = len(outs) == 1 and outs[0].kind == 'ret' and isinstance(outs[0].value, Agg) and outs[0].value.variant == 0
    if not ok:
        bad.append('checked_ten_pow(39..=255) -> %s' % (outs,))
    rep.ob('R-TABLE', 'checked_ten_pow', not bad, '; '.join(bad[:3]) or 'Some(10^n) for n <= 38, None above', site=span_str(ctp.get('span')))
    mx = db.items.get('fpdec_core::MAX_N_FRAC_DIGITS')
    ok = mx is not None and mx.get('value', {}).get('int') == '18'
    rep.ob('R-TABLE', 'MAX_N_FRAC_DIGITS', ok, 'MAX_N_FRAC_DIGITS = %s' % (mx and mx.get('value'),))
