"""R-PROFILE inventory: every site whose behaviour depends on the build profile.

* Assert(Overflow(Add|Sub|Mul|Shl|Shr)) / Assert(OverflowNeg): emitted only with overflow checks on
* calls of core functions carrying #[rustc_inherit_overflow_checks] (<iN as Add>::add, abs, pow, ...)
* debug_assert*! (cfg!(debug_assertions))
Assert(DivisionByZero | RemainderByZero | Overflow(Div|Rem) | BoundsCheck) are profile independent.
"""
from .. import mir
from ..db import span_str
from ..models import is_inherit_overflow


def inventory(db, crates=('fpdec', 'fpdec_core')):
    """list of dict(fn, bb, kind, op, site)"""
    out = []
    for f in db.fns.values():
        if f['crate'] not in crates:
            continue
        live = mir.reachable_blocks(f)
        for bi, b in enumerate(f['blocks']):
            if bi not in live:
                continue
            t = b['term']
            if not isinstance(t, dict):
                continue
            if 'assert' in t and t['kind'] in ('Overflow', 'OverflowNeg') and t.get('op') not in ('Div', 'Rem'):
                out.append({'fn': f['id'], 'bb': bi, 'kind': 'assert', 'op': t.get('op') or 'Neg', 'site': span_str(b.get('tspan'))})
            elif 'call' in t:
                fid, path, _ = mir.callee(t)
                if path and is_inherit_overflow(path):
                    out.append({'fn': f['id'], 'bb': bi, 'kind': 'inherit', 'op': path, 'site': span_str(b.get('tspan'))})
                elif path and (path.startswith('core::panicking::') or path.startswith('core::rt::panic')):
                    macros = (b.get('tspan') or {}).get('macros', [])
                    if any('debug_assert' in m for m in macros):
                        out.append({'fn': f['id'], 'bb': bi, 'kind': 'debug_assert', 'op': '', 'site': span_str(b.get('tspan'))})
    return out
