"""R-IMPLSHAPE: comparison impls of the crate's types provide only partial_cmp / cmp / eq."""
from ..db import span_str

ALLOWED = {'core::cmp::PartialOrd': {'partial_cmp'}, 'core::cmp::Ord': {'cmp'}, 'core::cmp::PartialEq': {'eq'}}


def run(rep, db):
    n = 0
    for im in db.impls.values():
        tr = im['trait']
        if tr not in ALLOWED or not im['id'].startswith('fpdec::'):
            continue
        if not any('Decimal' in a for a in im['trait_args']):
            continue
        names = set(it['name'] for it in im['items'] if it['kind'].startswith('Fn'))
        ok = names == ALLOWED[tr]
        n += 1
        rep.ob('R-IMPLSHAPE', '%s;%s<%s>' % (db.config, tr.rsplit('::', 1)[1], ','.join(im['trait_args'])), ok,
               'impl provides %s; only %s may be overridden so that <, <=, >, >=, !=, min, max are derived from it' % (sorted(names), sorted(ALLOWED[tr])),
               site=span_str(im.get('span')))
    has_eq = any(im['trait'] == 'core::cmp::Eq' and im['trait_args'] == ['Decimal'] for im in db.impls.values())
    rep.ob('R-IMPLSHAPE', '%s;Eq-for-Decimal' % db.config, has_eq, 'impl Eq for Decimal exists')
    rep.floor('R-IMPLSHAPE', 30)
