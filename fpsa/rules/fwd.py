"""R-FWD: reference / assign / reversed forms are pure forwarders to their base implementation.

A pure forwarder computes exactly the function of its callee (including
panics): the body consists of copies/derefs of its parameters and exactly one
call whose resolved callee is the base impl's method, arguments passed in the
expected positional order, result returned (or stored to *self) unchanged.
"""
from .. import mir
from ..db import span_str, strip_lt

OP_TRAITS = {
    'core::ops::arith::Add': 'add', 'core::ops::arith::Sub': 'sub', 'core::ops::arith::Mul': 'mul',
    'core::ops::arith::Div': 'div', 'core::ops::arith::Rem': 'rem',
    'fpdec::binops::checked_add_sub::CheckedAdd': 'checked_add', 'fpdec::binops::checked_add_sub::CheckedSub': 'checked_sub',
    'fpdec::binops::checked_mul::CheckedMul': 'checked_mul', 'fpdec::binops::checked_div::CheckedDiv': 'checked_div',
    'fpdec::binops::checked_rem::CheckedRem': 'checked_rem',
    'fpdec::binops::div_rounded::DivRounded': 'div_rounded', 'fpdec::binops::mul_rounded::MulRounded': 'mul_rounded',
}
COMMUTATIVE = ('core::ops::arith::Add', 'fpdec::binops::checked_add_sub::CheckedAdd')
ASSIGN_TRAITS = {
    'core::ops::arith::AddAssign': ('add_assign', 'core::ops::arith::Add', 'add'),
    'core::ops::arith::SubAssign': ('sub_assign', 'core::ops::arith::Sub', 'sub'),
    'core::ops::arith::MulAssign': ('mul_assign', 'core::ops::arith::Mul', 'mul'),
    'core::ops::arith::DivAssign': ('div_assign', 'core::ops::arith::Div', 'div'),
    'core::ops::arith::RemAssign': ('rem_assign', 'core::ops::arith::Rem', 'rem'),
}


def strip_ref(t):
    t = strip_lt(t)
    while t.startswith('&'):
        t = t[1:]
        if t.startswith('mut '):
            t = t[4:]
    return t


def shape(fn):
    """describe a candidate forwarder body, or return (None, reason)"""
    live = mir.reachable_blocks(fn)
    calls = []
    for bi in sorted(live):
        b = fn['blocks'][bi]
        t = b['term']
        if isinstance(t, dict):
            if 'call' in t:
                calls.append((bi, t, b))
            elif 'switch' in t:
                return None, 'has a branch'
            elif 'assert' in t:
                return None, 'has an assert'
    if len(calls) != 1:
        return None, '%d calls' % len(calls)
    bi, t, b = calls[0]
    du = mir.DefUse(fn)
    fid, path, gargs = mir.callee(t)
    args = [mir.origin(fn, a, du) for a in t['args']]
    # statements may only be uses / refs (no arithmetic)
    for bj, si, st in mir.iter_stmts(fn):
        if bj not in live:
            continue
        rv = st.get('rv', {})
        # data movement only: copies, borrows, building / taking apart tuples (`let (a, b) = (*self, *rhs)`); no arithmetic
        if not ('use' in rv or 'ref' in rv or (rv.get('agg') == 'tuple')):
            return None, 'statement %s' % (list(rv.keys()),)
    # where does the result go?
    dest = t['dest']
    ret = None
    if dest['local'] == 0 and not dest['proj']:
        ret = 'returned'
    else:
        # result local copied to _0 ?
        o = mir.origin(fn, {'copy': {'local': 0, 'proj': []}}, du)
        if o and o[0] == 'call' and o[1] == fid:
            ret = 'returned'
        else:
            # stored through a deref of a parameter?
            for bj, si, st in mir.iter_stmts(fn):
                if 'assign' in st and st['assign']['proj'] == ['deref'] and 'use' in st['rv']:
                    src = mir.op_place(st['rv']['use'])
                    if src and src['local'] == dest['local'] and not src['proj'] and not dest['proj']:
                        tgt = mir.origin_local(fn, st['assign']['local'], du, 0)
                        ret = ('stored', tgt)
            if dest['proj'] == ['deref']:
                ret = ('stored', mir.origin_local(fn, dest['local'], du, 0))
    return {'callee': fid, 'callee_unres': mir.callee_unresolved(t), 'unres_args': (t['call'].get('const') or {}).get('args'),
            'path': path, 'args': args, 'ret': ret, 'site': span_str(b.get('tspan'))}, None


def expected_arg(i, param_ty):
    """origin expected for parameter i (1-based) when forwarded by value"""
    if strip_lt(param_ty).startswith('&'):
        return ('deref', ('param', i))
    return ('param', i)


def run_ops(rep, db, traits=None):
    """check every reference form of the operator traits; returns list of non-forwarder impl fns (to be analysed as roots)"""
    leftovers = []
    n = 0
    for im in db.impls.values():
        tr = im['trait']
        if tr not in OP_TRAITS or (traits and tr not in traits):
            continue
        targs = [strip_lt(a) for a in im['trait_args']]
        if not any(a.startswith('&') for a in targs):
            continue
        meth = OP_TRAITS[tr]
        fn = None
        for it in im['items']:
            if it['name'] == meth:
                fn = db.fns.get(it['id'])
        key = '%s;%s<%s>' % (db.config, tr.rsplit('::', 1)[1], ','.join(targs))
        if fn is None:
            rep.ob('R-FWD', key, False, 'impl has no method %s' % meth)
            continue
        base_args = [strip_ref(a) for a in targs]
        base = db.find_impl_fn(tr, base_args, meth)
        if base is None:
            rep.ob('R-FWD', key, False, 'no base impl %s<%s>' % (tr, base_args), site=span_str(fn.get('span')))
            continue
        sh, why = shape(fn)
        n += 1
        if sh is None:
            leftovers.append((fn, base, why))
            continue
        exp_args = [expected_arg(i + 1, fn['locals'][i + 1]) for i in range(fn['arg_count'])]
        ok = sh['callee'] == base['id'] and sh['args'] == exp_args and sh['ret'] == 'returned'
        if not ok and tr in COMMUTATIVE and base_args[0] == base_args[1] and len(exp_args) == 2:
            # a + b and b + a are the same function (value, scale and failure condition of Appendix A.2 are symmetric)
            sw = [('deref', ('param', 2)) if exp_args[1][0] == 'deref' else ('param', 2), ('deref', ('param', 1)) if exp_args[0][0] == 'deref' else ('param', 1)]
            ok = sh['callee'] == base['id'] and sh['args'] == sw and sh['ret'] == 'returned'
        rep.ob('R-FWD', key, ok,
               'forwarder must call %s with %s and return its result; found callee %s args %s result %s' % (base['id'], exp_args, sh['callee'], sh['args'], sh['ret']),
               site=sh['site'])
    return leftovers


def run_assign(rep, db, traits=None):
    for im in db.impls.values():
        tr = im['trait']
        if tr not in ASSIGN_TRAITS or (traits and tr not in traits):
            continue
        meth, btr, bmeth = ASSIGN_TRAITS[tr]
        fn = None
        for it in im['items']:
            if it['name'] == meth:
                fn = db.fns.get(it['id'])
        key = '%s;%s<%s>' % (db.config, tr.rsplit('::', 1)[1], ','.join(strip_lt(a) for a in im['trait_args']))
        if fn is None:
            rep.ob('R-FWD-ASSIGN', key, False, 'no method')
            continue
        sh, why = shape(fn)
        if sh is None:
            rep.ob('R-FWD-ASSIGN', key, False, 'compound assignment is not a pure forwarder (%s)' % why, site=span_str(fn.get('span')))
            continue
        # generic impl<T> OpAssign<T> for Decimal: the callee is the unresolved trait method Op::op::<Decimal, T>
        self_ty = strip_lt(im['trait_args'][0])
        rhs_ty = strip_lt(im['trait_args'][1])
        ok = (sh['callee_unres'] == btr + '::' + bmeth
              and [strip_lt(a) for a in (sh['unres_args'] or [])] == [self_ty, rhs_ty]
              and sh['args'] == [('deref', ('param', 1)), ('param', 2)]
              and sh['ret'] == ('stored', ('param', 1)))
        rep.ob('R-FWD-ASSIGN', key, ok,
               '`x op= y` must be `*x = Op::op(*x, y)` for the same operand types; found callee %s<%s> args %s result %s' % (
                   sh['callee_unres'], sh['unres_args'], sh['args'], sh['ret']), site=sh['site'])


def shape_multi(fn):
    """forwarder chain allowing helper calls on the way (e.g. String::as_str): list of call descriptions in block order"""
    live = mir.reachable_blocks(fn)
    du = mir.DefUse(fn)
    out = []
    for bi in sorted(live):
        b = fn['blocks'][bi]
        t = b['term']
        if isinstance(t, dict):
            if 'switch' in t or 'assert' in t:
                return None, 'has a branch'
            if 'call' in t:
                fid, path, gargs = mir.callee(t)
                args = [mir.origin(fn, a, du) for a in t['args']]
                dest = t['dest']
                ret = 'returned' if (dest['local'] == 0 and not dest['proj']) else None
                out.append({'callee': fid, 'path': path, 'args': args, 'ret': ret})
    if not out:
        return None, 'no call'
    return out, None
