"""R-TLS / R-NOSTATIC / R-MODE: the default rounding mode is per thread (C19)."""
import json
from .. import mir
from ..db import span_str, norm_path

RM = 'rounding::RoundingMode'      # printed inside fpdec_core
RM_ADT = 'fpdec_core::rounding::RoundingMode'

# accessor functions through which default()/set_default() may reach the cell (pure plumbing of std)
READ_OK = (
    'core::thread::LocalKey::<T>::with', 'core::thread::LocalKey::<core::cell::RefCell<T>>::with_borrow',
    'core::thread::LocalKey::<core::cell::Cell<T>>::get', 'core::cell::RefCell::<T>::borrow',
    'core::cell::Cell::<T>::get', '<core::cell::Ref<\'_, T> as core::ops::Deref>::deref',
    'core::clone::Clone::clone', '<rounding::RoundingMode as core::clone::Clone>::clone',
)
WRITE_OK = READ_OK + (
    'core::cell::RefCell::<T>::borrow_mut', '<core::cell::RefMut<\'_, T> as core::ops::DerefMut>::deref_mut',
    'core::thread::LocalKey::<core::cell::RefCell<T>>::with_borrow_mut', 'core::thread::LocalKey::<core::cell::RefCell<T>>::set',
    'core::thread::LocalKey::<core::cell::Cell<T>>::set', 'core::cell::Cell::<T>::set', 'core::cell::RefCell::<T>::replace',
    'core::thread::LocalKey::<core::cell::RefCell<T>>::replace', 'core::thread::LocalKey::<core::cell::Cell<T>>::replace',
    'core::cell::Cell::<T>::replace', 'core::mem::drop',
)
SPAWN = ('thread::spawn', 'thread::Builder::spawn', 'thread::scope', 'thread::Scope', 'thread::Builder::spawn_scoped')


def _bodies(fn):
    yield fn
    for p in fn.get('promoted', []):
        yield p


def _mentions_rm(ty):
    return 'RoundingMode' in ty


def key_items(db):
    """items (consts/statics) of the workspace whose type mentions RoundingMode"""
    return [it for it in db.items.values() if _mentions_rm(it['ty'])]


def refs_key(db, fn, key_ids):
    hit = False
    for body in _bodies(fn):
        for c in mir.consts_in_body(body):
            if c.get('item') in key_ids or c.get('static') in key_ids:
                hit = True
        for bi, si, st in mir.iter_stmts(body):
            rv = st.get('rv') or {}
            if 'tlsref' in rv and any(rv['tlsref'].startswith(k) for k in key_ids):
                hit = True
    return hit


def closures_of(db, fn):
    pre = fn['id'] + '::{closure'
    return [f for f in db.fns.values() if f['id'].startswith(pre)]


def rm_literals(body):
    """variant indices of RoundingMode values constructed or named as constants in a body"""
    out = []
    for bi, si, rv, sp in mir.aggregates_in_body(body):
        k = rv['agg']
        if isinstance(k, dict) and k.get('adt') == RM_ADT:
            out.append(k['variant'])
    for c in mir.consts_in_body(body):
        if c.get('adt') == RM_ADT and c.get('variant') is not None:
            out.append(c['variant'])
    return out


def has_switch(body):
    live = mir.reachable_blocks(body)
    return any(isinstance(b['term'], dict) and 'switch' in b['term'] for i, b in enumerate(body['blocks']) if i in live)


def variant_name(db, idx):
    for v in db.adts[RM_ADT]['variants']:
        if v['index'] == idx:
            return v['name']
    return '?'


def run(rep, db, std=True):
    cfg = db.config
    ws_fns = list(db.fns.values())
    # ---------------------------------------------------------------- R-NOSTATIC
    for it in db.items.values():
        if not it['kind'].startswith('Static'):
            continue
        ok = bool(it.get('thread_local')) or (not it.get('mutable') and it.get('freeze'))
        rep.ob('R-NOSTATIC', '%s;%s' % (cfg, it['id']), ok,
               'static %s : %s mutable=%s freeze=%s thread_local=%s - a static that is writable (mut or interior mutability) and not #[thread_local] is state shared between threads' % (
                   it['id'], it['ty'], it.get('mutable'), it.get('freeze'), it.get('thread_local')),
               site=span_str(it.get('span')))
    # ---------------------------------------------------------------- the key
    # storage is a static or a thread_local! key; a plain `const X: RoundingMode = ..` is a value, not a store
    keys = [it for it in key_items(db) if '::__RUST_STD_INTERNAL_VAL' not in it['id'] and (it['kind'].startswith('Static') or 'LocalKey<' in it['ty'] or 'Cell<' in it['ty'])]
    # items the thread_local! expansion nests under its key (`const { .. }` initialisers: __RUST_STD_INTERNAL_INIT, the backing statics) belong to that key
    lk = [k['id'] for k in keys if 'LocalKey<' in k['ty']]
    keys = [k for k in keys if not any(k['id'].startswith(p + '::') for p in lk)]
    key_ids = [k['id'] for k in keys]
    rep.ob('R-TLS-KEY', '%s;exactly-one-store' % cfg, len(keys) == 1,
           'items whose type mentions RoundingMode: %s' % [(k['id'], k['ty']) for k in keys])
    if len(keys) != 1:
        return
    key = keys[0]
    if std:
        ok = key['kind'].startswith('Const') and key['ty'].startswith('std::thread::LocalKey<') and RM in key['ty']
        rep.ob('R-TLS-KEY', '%s;is-thread-local-key' % cfg, ok, 'key %s has type %s (expected a std::thread::LocalKey)' % (key['id'], key['ty']), site=span_str(key.get('span')))
        tls_statics = [it for it in db.items.values() if it['id'].startswith(key['id'] + '::') and it['kind'].startswith('Static')]
        rep.ob('R-TLS-KEY', '%s;backed-by-thread_local-static' % cfg, len(tls_statics) >= 1 and all(s.get('thread_local') for s in tls_statics),
               'backing statics: %s' % [(s['id'], s.get('thread_local')) for s in tls_statics])
    else:
        ok = key['kind'].startswith('Static') and not key.get('mutable') and key.get('freeze')
        rep.ob('R-TLS-KEY', '%s;immutable-static' % cfg, ok, 'no_std: %s must be an immutable Freeze static' % key['id'], site=span_str(key.get('span')))
    # ---------------------------------------------------------------- initial value
    lits = []
    for f in ws_fns:
        if f['id'].startswith(key['id'] + '::') or f['id'] == key['id']:
            for b in _bodies(f):
                lits += rm_literals(b)
    if 'init' in key and key['init']:
        lits += rm_literals(key['init'])
    if key.get('value') and isinstance(key['value'], dict) and key['value'].get('adt') == RM_ADT:
        lits.append(key['value'].get('variant'))
    # `thread_local!(static K: .. = const { .. })`: the initial value is an evaluated constant nested under the key
    def _value_lits(v):
        if isinstance(v, dict):
            if v.get('adt') == RM_ADT and v.get('variant') is not None:
                lits.append(v['variant'])
            for x in v.values():
                _value_lits(x)
        elif isinstance(v, list):
            for x in v:
                _value_lits(x)
    for it in db.items.values():
        if it['id'].startswith(key['id'] + '::'):
            _value_lits(it.get('value'))
            if it.get('init'):
                lits += rm_literals(it['init'])
    names = sorted(set(variant_name(db, i) for i in lits))
    rep.ob('R-TLS-INIT', '%s;initial-mode' % cfg, names == ['RoundHalfEven'],
           'RoundingMode literals in the initialiser of %s: %s (must be exactly RoundHalfEven)' % (key['id'], names), site=span_str(key.get('span')))
    # ---------------------------------------------------------------- who touches the key
    dflt = [f for f in ws_fns if f['impl'] and f['impl']['trait'] == 'core::default::Default' and f['impl']['self'] == RM and f['name'] == 'default']
    rep.ob('R-TLS-READ', '%s;default-exists' % cfg, len(dflt) == 1, 'impl Default for RoundingMode: %s' % [f['id'] for f in dflt])
    def private_helpers(f, seen=None):
        """private functions of the same crate that f calls (transitively): plumbing of the accessor, judged together with it"""
        seen = seen if seen is not None else {}
        for g in [f] + closures_of(db, f):
            for b in _bodies(g):
                for bi, t, _ in mir.iter_calls(b):
                    fid = mir.callee(t)[0]
                    h = db.fns.get(fid)
                    if h is not None and fid not in seen and h['crate'] == f['crate'] and 'Public' not in str(h.get('vis')) and h['id'] != f['id']:
                        seen[fid] = h
                        private_helpers(h, seen)
        return list(seen.values())
    reader_helpers = set(h['id'] for f in dflt for h in private_helpers(f))
    setd = [f for f in ws_fns if f['crate'] == 'fpdec_core' and f['kind'] == 'AssocFn' and f['impl'] and f['impl']['trait'] is None
            and f['impl']['self'] == RM and refs_key(db, f, key_ids) and f['id'] not in reader_helpers]
    allowed = set()
    for f in dflt + setd:
        allowed.add(f['id'])
        for c in closures_of(db, f):
            allowed.add(c['id'])
        for h in private_helpers(f):
            allowed.add(h['id'])
            for c in closures_of(db, h):
                allowed.add(c['id'])
    for f in ws_fns:
        if f['id'].startswith(key['id'] + '::'):
            continue
        if refs_key(db, f, key_ids):
            rep.ob('R-TLS-WHO', '%s;%s' % (cfg, f['id']), f['id'] in allowed,
                   '%s accesses the rounding-mode cell %s; only <RoundingMode as Default>::default and the inherent setter may' % (f['id'], key['id']), site=span_str(f.get('span')))
    # ---------------------------------------------------------------- reader
    if len(dflt) == 1:
        f = dflt[0]
        group = [f] + closures_of(db, f)
        for h in private_helpers(f):
            group += [h] + closures_of(db, h)
        bad = []
        for g in group:
            for b in _bodies(g):
                for bi, t, _ in mir.iter_calls(b):
                    fid, path, _a = mir.callee(t)
                    if path not in READ_OK and fid not in [x['id'] for x in group]:
                        bad.append('call %s' % path)
                if has_switch(b):
                    bad.append('branch in %s' % g['id'])
                if rm_literals(b):
                    bad.append('RoundingMode literal %s in %s' % ([variant_name(db, i) for i in rm_literals(b)], g['id']))
        if not any(refs_key(db, g, key_ids) for g in group):
            bad.append('does not read %s' % key['id'])
        rep.ob('R-TLS-READ', '%s;default-returns-cell-content' % cfg, not bad,
               'default() must return the content of the per-thread cell through accessor calls only (no branch, no literal): %s' % bad, site=span_str(f.get('span')))
    # ---------------------------------------------------------------- writer
    if std:
        rep.ob('R-TLS-WRITE', '%s;setter-exists' % cfg, len(setd) == 1, 'inherent RoundingMode fns touching the cell: %s' % [f['id'] for f in setd])
        if len(setd) == 1:
            f = setd[0]
            group = [f] + closures_of(db, f)
            bad = []
            stores = []
            for g in group:
                for b in _bodies(g):
                    for bi, t, _ in mir.iter_calls(b):
                        fid, path, _a = mir.callee(t)
                        if path not in WRITE_OK and fid not in [x['id'] for x in group]:
                            bad.append('call %s' % path)
                    if has_switch(b):
                        bad.append('branch in %s' % g['id'])
                    if rm_literals(b):
                        bad.append('RoundingMode literal in %s' % g['id'])
                du = mir.DefUse(g)
                for bi, si, st in mir.iter_stmts(g):
                    if 'assign' in st and st['assign']['proj'] == ['deref'] and g['locals'][st['assign']['local']].endswith(RM):
                        stores.append((g, mir.origin(g, st['rv'].get('use'), du) if 'use' in st['rv'] else ('rv',)))
                # setter-style calls (Cell::set, LocalKey::set, replace) store their last argument
                for bi, t, _ in mir.iter_calls(g):
                    fid, path, _a = mir.callee(t)
                    if path and path.endswith(('::set', '::replace')):
                        stores.append((g, mir.origin(g, t['args'][-1], du)))
            if len(stores) != 1:
                bad.append('expected exactly one store into the cell, found %d' % len(stores))
            else:
                g, o = stores[0]
                # the stored value must be the setter's parameter (directly, or through the closure capture)
                okv = False
                if g is f:
                    okv = o == ('param', 1)
                else:
                    # *(closure_env.0) where the capture is &param1 or param1
                    flat = [n for n in mir.walk(o)]
                    if ('param', 1) in flat and all(n[0] in ('param', 'field', 'deref', 'ref') for n in flat):
                        # capture operand in the parent
                        du_f = mir.DefUse(f)
                        caps = [rv for bi, si, rv, sp in mir.aggregates_in_body(f) if isinstance(rv['agg'], dict) and rv['agg'].get('closure') == g['id']]
                        if len(caps) == 1 and len(caps[0]['ops']) == 1:
                            co = mir.origin(f, caps[0]['ops'][0], du_f)
                            okv = co in (('param', 1), ('ref', ('param', 1)))
                if not okv:
                    bad.append('stored value does not originate from the mode parameter: %s' % (o,))
            rep.ob('R-TLS-WRITE', '%s;setter-stores-its-parameter' % cfg, not bad,
                   'set_default must store exactly its parameter into the per-thread cell: %s' % bad, site=span_str(f.get('span')))
    else:
        rep.ob('R-TLS-WRITE', '%s;no-setter' % cfg, len(setd) == 0, 'no_std configuration must not have a setter: %s' % [f['id'] for f in setd])
    # ---------------------------------------------------------------- who may call
    setter_ids = set(f['id'] for f in setd)
    for f in ws_fns:
        for b in _bodies(f):
            for bi, t, blk in mir.iter_calls(b):
                fid, path, _a = mir.callee(t)
                if fid in setter_ids:
                    rep.ob('R-WHO-CALLS', '%s;%s;calls-setter' % (cfg, f['id']), False,
                           'library code calls %s: the thread\'s mode would change without the user asking' % fid, site=span_str(blk.get('tspan')))
                if path and any(s in path for s in SPAWN):
                    rep.ob('R-WHO-CALLS', '%s;%s;spawns-thread' % (cfg, f['id']), False,
                           'library code calls %s: work done on another thread would use that thread\'s rounding mode' % path, site=span_str(blk.get('tspan')))
    rep.ob('R-WHO-CALLS', '%s;scan' % cfg, True, 'scanned %d bodies for calls of the setter and of thread spawning APIs' % len(ws_fns))
    # ---------------------------------------------------------------- R-MODE
    mode_params = {}   # fn id -> param indices of type Option<RoundingMode>
    for f in ws_fns:
        idx = [i for i in range(1, f['arg_count'] + 1) if 'Option<' in f['locals'][i] and 'RoundingMode>' in f['locals'][i]]
        if idx:
            mode_params[f['id']] = idx
    n_sites = 0
    for f in ws_fns:
        du = None
        ordn = {}
        for bi, t, blk in mir.iter_calls(f):
            fid, path, _a = mir.callee(t)
            if fid in mode_params:
                du = du or mir.DefUse(f)
                ordn[fid] = ordn.get(fid, 0) + 1
                for pi in mode_params[fid]:
                    n_sites += 1
                    o = mir.origin(f, t['args'][pi - 1], du)
                    ok = mode_origin_ok(db, f, o)
                    rep.ob('R-MODE', '%s;%s;calls;%s#%d;arg%d' % (cfg, f['id'], fid, ordn[fid], pi), ok,
                           'rounding-mode argument must be None, the caller\'s own mode parameter, or Some(RoundingMode::default()); found %s' % (short(o),),
                           site=span_str(blk.get('tspan')))
    return n_sites


def short(o):
    s = json.dumps(o, default=str)
    return s if len(s) < 300 else s[:300] + '...'


def _closure_capture(db, f, k):
    """(parent fn, origin of the k-th captured variable at the closure's construction site in the parent) for a closure body f"""
    import re
    m = re.match(r'^(.*)::\{closure#\d+\}$', f['id'])
    parent = db.fns.get(m.group(1)) if m else None
    if parent is None:
        return None, None
    du = mir.DefUse(parent)
    for blk in parent['blocks']:
        for s in blk.get('stmts', []):
            rv = s.get('rv') if isinstance(s, dict) else None
            if isinstance(rv, dict) and isinstance(rv.get('agg'), dict) and rv['agg'].get('closure') == f['id'] and k < len(rv.get('ops', [])):
                return parent, mir.origin(parent, rv['ops'][k], du)
    return parent, None


def mode_origin_ok(db, f, o):
    if o[0] == 'param' and 'RoundingMode' in f['locals'][o[1]]:
        return True
    # a variable captured by a closure (by value, or by reference and read through it): judge it where the closure is built
    cap = o[1] if o[0] == 'deref' else o
    if f.get('kind') == 'Closure' and cap[0] == 'field' and cap[2] == ['param', 1] or (f.get('kind') == 'Closure' and cap[0] == 'field' and list(cap[2]) == ['param', 1]):
        parent, o2 = _closure_capture(db, f, cap[1])
        if o2 is not None:
            if o2[0] == 'ref' :
                # captured by reference: the referent is a local / parameter of the parent
                tgt = o2[1]
                if isinstance(tgt, (list, tuple)) and tgt and tgt[0] in ('local', 'param') and tgt[1] <= parent['arg_count'] and 'RoundingMode' in parent['locals'][tgt[1]]:
                    return True
                if isinstance(tgt, (list, tuple)) and tgt:
                    return mode_origin_ok(db, parent, tuple(tgt))
                return False
            return mode_origin_ok(db, parent, o2)
    if o[0] == 'agg' and isinstance(o[1], dict) and o[1].get('adt') == 'core::option::Option':
        if o[1]['variant'] == 0:
            return True
        if o[1]['variant'] == 1 and len(o[2]) == 1:
            x = o[2][0]
            return x[0] == 'call' and x[2] is not None and x[2].endswith('as core::default::Default>::default') and 'RoundingMode' in x[2]
    if o[0] == 'const' and o[1].get('adt') == 'core::option::Option' and o[1].get('variant') == 0:
        return True
    return False
