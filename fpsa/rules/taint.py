"""R-ROUND-ONCE: the dividend handed to a rounding helper must not itself be the result of a lossy operation.

Sources: integer Div / Rem / Shr results and results of the rounding helpers.  Sinks: the dividend
operand(s) of i128_div_rounded, i128_shifted_div_rounded, i128_mul_div_ten_pow_rounded.  Rounding an
already truncated or rounded quotient is double rounding (necessary condition for single rounding).
R-SIGN-BEFORE-ROUND: abs / unsigned_abs / negation results must not reach those operands either
(directed modes depend on the sign).
"""
from .. import mir
from ..db import span_str

CORE = 'fpdec_core::rounding::'
SINKS = {CORE + 'i128_div_rounded': [0], CORE + 'i128_shifted_div_rounded': [0], CORE + 'i128_mul_div_ten_pow_rounded': [0, 1]}
LOSSY_BINOPS = ('Div', 'Rem', 'Shr', 'ShrUnchecked')


def lossy_nodes(o):
    bad = []
    for n in mir.walk(o):
        if n[0] == 'binop' and n[1] in LOSSY_BINOPS:
            bad.append('%s of %s' % (n[1], short(n[2])))
        if n[0] == 'call' and n[1] in SINKS:
            bad.append('result of %s' % n[1])
        if n[0] == 'call' and n[2] and ('div_mod_floor' in n[2] or '::div_floor' in n[2] or '::div_ceil' in n[2] or 'div_euclid' in n[2] or 'rem_euclid' in n[2]):
            bad.append('result of %s' % n[2])
    return bad


def sign_nodes(o):
    bad = []
    for n in mir.walk(o):
        if n[0] == 'call' and n[2] and (n[2].endswith('>::abs') or n[2].endswith('::unsigned_abs') or n[2].endswith('::wrapping_abs')):
            bad.append('result of %s' % n[2])
        if n[0] == 'unop' and n[1] == 'Neg':
            bad.append('negation')
        if n[0] == 'call' and n[2] and 'core::ops::Neg>::neg' in n[2]:
            bad.append('negation')
    return bad


def short(n):
    s = str(n)
    return s if len(s) < 80 else s[:80] + '..'


def round_once(rep, db, only_prefix=None):
    nsites = 0
    for f in db.fns.values():
        if f['id'].startswith(CORE) or (only_prefix and not f['id'].startswith(only_prefix)):
            continue
        du = None
        ordn = {}
        for bi, t, blk in mir.iter_calls(f):
            fid, path, _ = mir.callee(t)
            if fid not in SINKS:
                continue
            du = du or mir.DefUse(f)
            ordn[fid] = ordn.get(fid, 0) + 1
            for ai in SINKS[fid]:
                o = mir.origin(f, t['args'][ai], du)
                nsites += 1
                key = '%s;calls;%s#%d;arg%d' % (f['id'], fid.rsplit('::', 1)[1], ordn[fid], ai)
                lz = lossy_nodes(o)
                rep.ob('R-ROUND-ONCE', key, not lz,
                       'the dividend of a rounding helper is itself a truncated / rounded value (%s): the result would be rounded twice' % '; '.join(lz),
                       site=span_str(blk.get('tspan')))
                sg = sign_nodes(o)
                rep.ob('R-SIGN-BEFORE-ROUND', key, not sg,
                       'the dividend of a rounding helper has lost its sign (%s): directed rounding modes would round the wrong way' % '; '.join(sg),
                       site=span_str(blk.get('tspan')))
    rep.floor('R-ROUND-ONCE', 1 if only_prefix else 8)
    return nsites
