#!/usr/bin/env python3
"""Regenerates MANIFEST.json from the table below (keeps the manifest valid and in one place)."""
import json, os, subprocess

HERE = os.path.dirname(os.path.abspath(__file__))

TB = ('rustc nightly MIR construction and Instance resolution (the suite is built by stable: same source semantics assumed); '
      'the MIR semantics and callee models implemented in fpsa/absint; ')

CHECKS = {
    'C19': dict(
        category='other', design_ref='DESIGN.md section 4 (R-TLS, R-NOSTATIC, R-MODE), section 5 C19',
        technique='who-may-access / who-may-call rules and def-use origin tracing over the MIR of all crates and feature configurations (custom rustc_private driver)',
        text='Structural proof over the resolved program: the only storage of a RoundingMode is one std thread-local key initialised with RoundHalfEven; only default() reads it and only set_default() writes it (its parameter); no static is shared-writable; no library code calls the setter or spawns threads; every rounding-kernel call site passes None / its own mode parameter. Schedules do not enter the argument, so the check covers all interleavings rather than sampling them.',
        note='Trusted: std::thread_local!/LocalKey semantics, rustc MIR. The dispatch on the mode inside the kernel is C05\'s obligation.'),
}

ABSINT = 'abstract interpretation of the MIR (interval x congruence x polynomial-term domain with a per-path fact store) run per cell of an exhaustive finite partition of the input space; verdict = abstract outcome set contained in the oracle\'s set'
CHECKS['C01'] = dict(
    category='proof', design_ref='DESIGN.md section 5 C01, Appendix A.2',
    technique=ABSINT + '; R-FWD forwarder shape rule; R-TABLE',
    text='For each of the 2812 (operation, operand form, integer type, scale pair) cells the MIR of the base impl is interpreted with symbolic coefficients over the full range: the returned coefficient is the polynomial 10^(m-p)x +- 10^(m-q)y at scale max(p,q); every failure edge is the overflow of one of the three permitted forms; checked variants have no panic edge. The partition is exhaustive (all 19x19 scale pairs, all 9 integer types, both positions), so this is a proof over all inputs modulo the trusted base, not a sample.',
    note=TB + 'dev-profile semantics (release behaviour is C20).')
CHECKS['C08'] = dict(
    category='proof', design_ref='DESIGN.md section 5 C08, Appendix A.7',
    technique=ABSINT + '; R-IMPLSHAPE; R-FWD-REV',
    text='For all 361 scale pairs (Decimal x Decimal: eq, partial_cmp, cmp) and 19 scales x 9 integer types x both positions, every return path\'s path condition implies that the returned ordering / equality is the sign of 10^(m-p)x - 10^(m-q)y over the integers, including the arms where scale alignment overflows (three-way fits/below/above split of every checked multiplication); partial_cmp has no None path, cmp no panic path. Derived operators are core\'s provided methods (R-IMPLSHAPE).',
    note=TB + 'core\'s provided PartialOrd/Ord methods; rkyv derive (thorough tier analyses the archived impls when built).')

CHECKS['C14'] = dict(
    category='proof', design_ref='DESIGN.md section 5 C14, Appendix A.8',
    technique=ABSINT,
    text='Per (target type, scale) cell (10 x 19) with a symbolic coefficient over the full range: Ok(v) paths imply x = 10^p*v and v within the target type; NotAnIntValue paths imply x mod 10^p != 0 whatever the range; ValueOutOfRange paths imply divisibility and an out-of-range quotient; all classes reachable. Decimal::from(i) is (i,0) as a term for the 9 integer types; try_from(u128) splits exactly at i128::MAX.',
    note=TB + 'core TryFrom between integer types (modelled).')
CHECKS['C15'] = dict(
    category='proof', design_ref='DESIGN.md section 5 C15, Appendix A.9',
    technique=ABSINT + ' (known-bits derived from intervals for the branch-free log10)',
    text='Per scale cell each return path of floor/ceil/trunc/fract implies the defining inequalities (e.g. 0 <= x - 10^p*floor < 10^p), neg/abs return the exact terms, the four predicates have exactly their truth condition; magnitude is proved constant k-p on each of the 39 decades x 2 signs x 19 scales and 0 for zero (exhaustive: every decade cell contains both end points). Thorough tier adds the num-traits impls (forwarders, signum, abs_sub, from_str_radix).',
    note=TB + 'The defect found by this check (magnitude of a non-normalised zero) is repaired by a fix: commit in /repo.')

CHECKS['C05'] = dict(
    category='proof', design_ref='DESIGN.md section 5 C05, Appendix A.1, A.5',
    technique=ABSINT + '; modular: kernel K, floor helper F and i128_div_rounded R are proved once, callers use the proved summary',
    text='(K) round_quot is interpreted with symbolic quot/rem/divisor for each of the 8 modes (passed as Some(mode) and via None -> default()): on every path the facts established by the kernel\'s own branches must determine the increment prescribed by the mode table, and the returned term is quot + that increment; (F),(R) likewise for the floor-division helper and i128_div_rounded over sign cells of the divisor. round/checked_round: per (p, n) cell - quick: boundary n values, thorough: all 19 x 256 - the value is unchanged for n >= p, Rnd(x/10^(p-n)) [x 10^-n] at scale max(n,0), failure only as overflow of that product, checked_round never panics; for p-n >= 39 every (mode, sign of x) class is checked against RoundSpec with the helpers inlined.',
    note=TB + 'mode semantics as tabulated in DESIGN.md Appendix A.1; the defect found here (far-below-half values rounded to zero under directed modes) is repaired by a fix: commit.')

CHECKS['C16'] = dict(
    category='proof', design_ref="DESIGN.md section 5 C16, section 3.4 (summaries S, W), section 12.9 (U-KERNEL, Knuth-D proof, tactics, fpsa/lp.py)",
    technique=ABSINT + "; assume/guarantee chain closed inside the check: callers use the summaries of the unsigned multiword kernels, the kernels are proved by interpretation with symbolic 128-bit words; Knuth's algorithm D per normalisation shift with opt-in sound tactics for products of unknowns (multiplier saturation of branch facts, relational quotient bounds, wrapping results tracked modulo 2^128, polyhedral bounds over monomials by an exact self-certifying dual simplex)",
    text='Decided: (S, W) the signed wrappers i128_shifted_div_mod_floor / i256_div_mod_floor and the wide rounding helpers, for every shift 0..=38 (thorough; quick: boundary shifts), every sign combination and all 8 modes (both via Some(mode) and the thread default): Some((q,r)) paths satisfy q*m + r = a*10^k (a*b) as polynomials with 0 <= r < m - including exact divisions; None paths imply that the quotient does not fit i128; the rounded helpers equal RoundSpec(mode, N/D) and have no panic edge. (U-KERNEL) u128_mul_u128: no overflow edge and hi*2^128 + lo = x*y; u256_idiv_u64 and the dispatch of u256_idiv_u128 for every divisor 1 <= y < 2^128: (qh*2^128 + ql)*y + r = xh*2^128 + xl, 0 <= r < y, no panic edge, *xh < y at both calls of the Knuth-D routine; u256_idiv_u128_special (Knuth D, 4-by-2 words) for every normalisation shift n = 127 - msb(y) (quick: 11 shifts, thorough: all 128, i.e. every divisor 1 <= y < 2^128), every *xh < y and every *xl: both quotient-digit loops unroll to at most two corrections, no overflow / debug_assert edge, *xh = 0 and ql*y + r = xh*2^128 + xl with 0 <= r < y on every path.',
    note=TB + "the opt-in non-linear tactics of absint and fpsa/lp.py (each LP bound is re-checked as a certificate independent of the pivoting); uniqueness of Euclidean division. Two defects found by this check (exact negative quotients; quot+1 overflow at i128::MAX) are repaired by fix: commits.")

MODULO = ' Rounded results are compared as the term Rnd[thread](N/D) produced by the summaries R (proved in C05) and W (proved in C16 down to the unsigned kernels incl. Knuth-D; the proofs this property depends on are re-run as DEP-* obligations).'
CHECKS['C02'] = dict(
    category='proof', design_ref='DESIGN.md section 5 C02, Appendix A.3',
    technique=ABSINT + '; modular composition through proved summaries; R-FWD',
    text='All 361 scale pairs x {Mul, CheckedMul} plus the integer forms (9 types, both positions): each path is classified by the facts it established (operand zero / equal to one / general) and must return the oracle\'s result: (0,0), the other operand unchanged, the exact product term x*y at scale p+q, or Rnd[thread](x*y/10^(p+q-18)) at scale 18; failures only as overflow of x*y resp. of the rounded product; checked_mul has no panic edge and is None whenever p+q > 18.' + MODULO,
    note=TB + "dev-profile semantics (C20 covers profiles).")
CHECKS['C03'] = dict(
    category='proof', design_ref='DESIGN.md section 5 C03, Appendix A.4',
    technique=ABSINT + '; modular composition through proved summaries; R-FWD',
    text='Per scale pair (quick: 6x6 boundary pairs and 4 integer types; thorough: all 361 and 9 types) Div / CheckedDiv: zero divisor <=> DivisionByZero / None; 0/y = (0,0); x/1 = x unchanged; otherwise the returned (c,f) satisfies c*10^(18-f) = Rnd[thread](10^(18+q-p) x / y) through the equalities recorded by the normalisation loop, with f = 0 or c mod 10 != 0; the only other failure is the rounded quotient not fitting i128; checked_div has no panic edge.' + MODULO,
    note=TB + 'the summaries\' proofs (C05, C16) are re-run inside this check.')
CHECKS['C04'] = dict(
    category='other', design_ref='DESIGN.md section 5 C04, Appendix A.3/A.4',
    technique=ABSINT + '; modular composition through proved summaries; R-FWD; shape rule for quantize',
    text='Per (p,q,n) cell (quick: 5^3 boundary cells, thorough: all 19^3) and operand form (Decimal/Decimal, Decimal/int, int/Decimal, int/int): n > 18 is rejected; zero divisor panics; the result is the single term Rnd[thread](exact rational) at scale exactly n (exact product at p+q when n >= p+q; (0,0) for zero operands); failures only as the rounded value exceeding i128. quantize is div_rounded(q,0)*q by shape. Category is "other" rather than proof because one open known finding remains (int/int div_rounded accepts n > 18; the repository\'s own test relies on it).' + MODULO,
    note=TB + 'the sticky-bit lemma of DESIGN.md (used to compare the repaired p > n+q overflow branch with the oracle).')

CHECKS['C10'] = dict(
    category='proof', design_ref='DESIGN.md section 5 C10, Appendix A.6',
    technique=ABSINT + ' (loop of the stepwise remainder unrolled by path forking, at most 18 rounds); R-FWD',
    text='Per scale pair (quick: 6x6 boundary pairs, thorough: all 361) x sign class of the dividend, Decimal and integer forms: zero divisor <=> DivisionByZero / None; every returned (r,f) has f <= max(p,q) and, with both operands re-expressed at scale max(p,q), x - r is an integer multiple of y as polynomials (using the equalities the path recorded), |r| < |y|, r zero or of the sign of x - which characterises the truncated remainder uniquely; the only other failure is the overflow signal of the stepwise loop, reachable only when p < q and 10^(q-p) x overflows; checked_rem has no panic edge. No summary and no lemma is needed (only truncating-division terms occur).',
    note=TB + 'A defect found here (i128::MIN % -1 panics) is repaired by a fix: commit.')

CHECKS['C17'] = dict(
    category='other', design_ref='DESIGN.md section 4 (R-FWD, R-SIB), section 5 C17',
    technique='forwarder-shape rule on MIR (resolved callee, argument origins, result flow) for all reference / assign / reversed forms; ' + ABSINT + ' for the integer-operand siblings',
    text='(a) all 657 reference forms of the 12 operator traits, the 5 compound assignments, the 9 reversed equality impls and the 2 string conversions are pure forwarders to their base impl (exactly the same function, panics included; a + b forwarded as b + a is accepted for Add/CheckedAdd only, whose oracle is symmetric). (b) every integer-operand base impl (9 types, both positions) of +,-,*,/,% and checked variants, div_rounded, ==, partial_cmp is compared per scale cell with the oracle of the Decimal x Decimal form applied to (i,0): same value, same scale for + and -, same failure class, with the documented multiplication short-cut exception. Category "other": one open known finding (int/int div_rounded accepts n > 18 while the Decimal form panics).',
    note=TB + 'summaries R (C05) and W (C16).')
CHECKS['C20'] = dict(
    category='other', design_ref='DESIGN.md section 4 (R-PROFILE, R-CONFIG-DIFF, R-UNSAFE), section 5 C20',
    technique='inventory of profile-dependent check sites on MIR extracted with overflow checks and debug assertions ON + ' + ABSINT + ' deciding for each reached site whether its failure edge is feasible; MIR equality between feature configurations; who-may-call rule for unsafe',
    text='Decided for the operations of C01-C16 (arithmetic, comparison, rounding, integer and float conversions, unary, wide helpers and unsigned kernels incl. Knuth-D, gcd / ratio / hash, parsing, formatting). Every overflow assert, every call of an inherit-overflow-checks core function (<i128 as Add>::add, abs, pow, ...) and every debug_assert reached by the ~4 500 (quick) / ~24 000 (thorough) cells of those properties has an infeasible failure edge in every cell, hence the release build - which omits the check - computes the same result; a feasible edge would be reported as "panics in dev, wraps in release". Function bodies are identical MIR with and without feature packed; unsafe operations are confined to the audited parser helpers. NOT decided: 7 sites in doc(hidden) helpers that fpdec itself no longer calls (mul_pow_ten, adjust_coeffs, the u8/u16 log10 helpers) and the debug_assert on the documented precondition of new_raw (listed as assumptions in the evidence).',
    note='Trusted: rustc (absent UB the optimisation level does not change results); ' + TB + 'The 98 silent-wrap sites found by this check are repaired by a fix: commit.')

CHECKS['C09'] = dict(
    category='proof', design_ref='DESIGN.md section 5 C09, section 12.8',
    technique='forwarder-shape rule on MIR for Hash::hash; ' + ABSINT + ' with a specification-supplied loop invariant for the binary-gcd loop (inductiveness checked by re-arrival subsumption, gcd identities as rewrite rules); who-may-call rule',
    text='Hash::hash is exactly as_integer_ratio().hash(state); for all 19 scales x sign classes as_integer_ratio() = (numerator(), denominator()) = (x/g, 10^p/g) over g = gcd_special(x,p), (x,1) for integral representations and zero; the assertions inside gcd_special cannot fire; the denominator is positive; and gcd_special(x,e) = gcd(|x|, 10^e) for every exponent 1..18 (thorough: 1..38) and both signs: the loop invariant "u odd, u > 0, v >= 0, gcd(u,v) = gcd(u_entry, v_entry)" holds on entry and is preserved by one iteration from an arbitrary invariant state, on exit v = 0. Hence the ratio is the unique reduced fraction and equal values hash identically.',
    note=TB + 'the textbook gcd identities L1/L2 (listed in the evidence); core\'s Hash for tuples.')
CHECKS['C18'] = dict(
    category='other', design_ref='DESIGN.md section 5 C18, Appendix A.10',
    technique='who-may-call / argument-origin rule (shared parser) + ' + ABSINT + ' of both post-processing paths in one shared term universe (sibling equivalence) against oracle A.10',
    text='CLAUSE decided (everything after the shared parser): Dec! and from_str call fpdec_core::str_to_dec exactly once on the literal text; with the parser replaced by "any Err kind or Ok((c,e))" the outcome sets of both post-processings - error kind with its overflow cause, or the pair (coefficient term, n_frac_digits), which the macro interpolates into Decimal::new_raw(#coeff, #n_frac_digits) - are equal for every exponent cell (-inf..-19, each of -18..38, 39..inf) and equal to oracle A.10. NOT decided: TokenStream::to_string / blank stripping, the parser itself.',
    note=TB + 'quote! interpolation order; proc-macro run-time behaviour.')

CHECKS['C11'] = dict(
    category='other', design_ref='DESIGN.md section 5 C11',
    technique=ABSINT + ' with the formatting machinery modelled structurally (arguments of format_args!/pad_integral kept as terms); def-use taint rules at the rounding call site',
    text='CLAUSE decided (numeric): for all 19 scales x {absent, 0..19, 40} precisions every path of Display::fmt ends in exactly one Formatter::pad_integral(coeff >= 0 of the unrounded value, "", buf) and buf is formatted from [int, frac, width] with width = min(P,18) (or the value\'s own digits), int*10^prec + frac = |x|*10^(prec-p) resp. |Rnd[thread](x/10^(p-prec))| (the signed value rounded once), 0 <= frac < 10^prec, and from [int] alone for prec = 0. NOT decided: the text core::fmt produces for the template and pad_integral\'s handling of width, fill, alignment, + and 0.',
    note=TB + 'core::fmt; summary R (C05).')

CHECKS['C06'] = dict(
    category='other', design_ref='DESIGN.md section 5 C06, sections 12.11 (value clause) and 12.14 (grammar clause)',
    technique=ABSINT + ' with generalisation (widening with thresholds + candidate relations checked inductively) at loop heads; modular: the three scanning helpers are analysed alone and replaced by the summaries they establish; unsafe preconditions as obligations; value and grammar clauses: the scanners replaced by a value-level contract with ghost quantities (digit counts, digits as a number, a trace of the runs), one atom per byte position, the input string reconstructed from each path\'s facts and judged by a DFA of the literal grammar written from the statement',
    text='CLAUSES decided: (1) str_to_dec, from_str and the TryFrom<&str|String> forwarders never panic and never read outside the string, for slices of every length 0..=isize::MAX, and at each unsafe call site of the parser the precondition holds. Under contract A of the three scanners (each consumes the maximal run of zeros / digits; accum_coeff leaves old*10^k + digits folded modulo 2^128 resp. saturating as its body does) - which is itself proved here, one iteration at a time (H-SCAN-STEP: one byte of the class consumed - eight in the SWAR loop -, accumulator = fold(10*old + digit) resp. fold(10^8*old + the eight digits), run maximal on return) together with the SWAR pair (H-SWAR: chunk_contains_8_digits is false whenever a byte is not a digit, in 25 lane cells; chunk_to_u64 of eight digits is the number they spell); trusted remainder: folding step by step = folding the numeral: (2) magnitude and signs: every Ok((c, e)) has c = +-D (D = the literal\'s digits as a number, D <= i128::MAX implied, sign from the literal\'s sign byte) and e = +-exponent - fractional digits (sign from the exponent\'s sign byte); Err(InternalOverflow) implies D > i128::MAX; (3) grammar: on every path the input string is reconstructed from the path\'s facts (byte tests, runs promised by the contract, end of input); Ok only for complete strings of the grammar [+|-](digits[.digits*] | .digits)[(e|E)[+|-]digits], Err(Invalid) only for strings no completion of which is in the grammar, Err(Empty) only for the empty string, Err(FracDigitLimitExceeded) before the end of the input only with an exponent of magnitude >= 100. The folding of (c, e) into a Decimal is C18\'s oracle. NOT decided: a zero coefficient with an exponent beyond 38 / 99 is rejected (not judged).',
    note=TB + 'slice/pointer models track lengths and one atom per byte position, words read from the input as byte lanes; fold algebra. Five defects found by clauses (2) and (3) are repaired by fix: commits: a wrapped 39-digit coefficient accepted; many leading fractional zeros rejected as overflow; "0." / "0e3" rejected; "1e+" accepted; "1e005" rejected.')

CHECKS['C07'] = dict(
    category='other', design_ref='DESIGN.md section 12.10',
    technique=ABSINT + ' with the formatting machinery modelled structurally (decoded format_args! template + argument terms; pad_integral under the default formatter); the three rendering functions are interpreted one after the other on the same path so that their outputs are compared under one path condition; the round trip is a composition argument whose premises (canonical shape, shape in the grammar, the parser\'s value and grammar clauses, the folding of (c, -p)) are obligations of this check',
    text='(a) decided: for all 19 scales x sign classes of the coefficient, Display::fmt under the default formatter (= to_string(), core\'s blanket impl), String::from(Decimal) and the text between "Dec!(" and ")" of Debug::fmt hand the same sequence of pieces to core::fmt: "-" iff x < 0, the decimal rendering of int, and iff p > 0 a "." and frac zero-padded to width p, with int >= 0, 0 <= frac < 10^p and int*10^p + frac = |x|. (b) round trip, by composition: that shape is a complete literal of the parser\'s grammar; for complete literals the parser returns the digits read as one number with the literal\'s sign and minus the number of fractional digits as exponent (C06 clauses 2 and 3, re-run here, under contract A of the scanners); from_str folds (c, -p) into Decimal(c, p) (C18 cells, re-run here); with positional notation (int*10^p + frac is the number the digit string denotes: trusted) parse(render(d)) has the coefficient and the fractional digit count of d. serde-as-str goes through String::from and TryFrom<String>, which forwards to from_str (serde\'s derive trusted).',
    note=TB + 'core::fmt: integer Display (decimal digits, no leading zeros, "-" + |v|), zero padding to a width, pad_integral under the default formatter, the template encoding of fmt::Arguments of the nightly used for extraction; contract A of the parser\'s scanners; positional notation; serde derive.')

CHECKS['C12'] = dict(
    category='proof', design_ref='DESIGN.md section 12.12 (as built; section 7 listed C12 as not applicable before the cell decomposition by bit length was tried)',
    technique=ABSINT + ': one cell per float type x scale x bit length of the coefficient x sign makes leading_zeros, all shifts and the divisor concrete; guard / sticky bits and the quotient\'s binade fork; the returned bit pattern is compared with the IEEE 754 encoding of RoundHalfEven(v * 2^(F-e)) by the fact-based RoundSpec oracle; polyhedral (exact LP) bounds for combining quotient / remainder facts',
    text='For f64 and f32, every scale 1..18, every bit length 1..127 of |coefficient| and both signs (thorough: all 2 x 18 x 127 x 2 cells; quick: boundary scales and bit lengths) - i.e. every Decimal with fractional digits - each path of <fN as From<Decimal>>::from decides the binade e of v = |coeff| / 10^p and returns the bit pattern sign | (q + ((e + bias - 1) << F)) with q = RoundHalfEven(v * 2^(F-e)): the nearest float, ties to even, including the carry into the exponent field; no panic edge (shift amounts, overflow checks). Values with 0 fractional digits and zero are converted by the primitive cast of the exact coefficient (its rounding is the language\'s: trusted).',
    note=TB + 'IEEE 754 binary32 / binary64 encoding as written in the oracle; Rust int-to-float `as` casts (nearest even, 0 -> +0.0).')

CHECKS['C13'] = dict(
    category='proof', design_ref='DESIGN.md section 12.13 (as built; section 7 listed C13 as not applicable before the cell decomposition by exponent field was tried)',
    technique=ABSINT + ': a float is its bit pattern; one cell per float type x sign x exponent field (fraction field symbolic) makes the binary exponent and the divisor 2^-e concrete, the digit loop unrolls (at most 18 rounds), half-even step and normalisation fork; fact-based RoundSpec oracle',
    text='For f64 and f32, every sign and every exponent field (thorough: all 2 x 2048 + 2 x 256 fields plus the zero / subnormal / infinity / NaN splits, i.e. every bit pattern; quick: 78 boundary cells) each path of TryFrom<fN> for Decimal returns what the statement prescribes: NaN -> NotANumber, infinities -> InfiniteValue, zeros and subnormals -> Ok(0); e >= 0: Ok(s*sig*2^e, 0) when it fits i128, else InternalOverflow; e < 0: Ok((c, n)) with |c| * 10^(18-n) = RoundHalfEven(sig * 10^18 / 2^-e) - the exact value whenever it has at most 18 fractional digits - the sign of the float, n <= 18 and no trailing fractional zero (c mod 10 != 0 established on the path); no path panics (the assert on the exponent field is unreachable).',
    note=TB + 'IEEE 754 binary32 / binary64 field layout (float models to_bits / is_nan / is_infinite).')

NOT_APPLICABLE = {
}

FULL_IN_QUICK = {'C01', 'C02', 'C03', 'C04', 'C05', 'C06', 'C07', 'C08', 'C09', 'C10', 'C11', 'C12', 'C13', 'C14', 'C15', 'C16', 'C17', 'C18', 'C19', 'C20'}
FULL_NOTE = (' Tiers: the full cell set of this property takes seconds, so the quick command runs the same cells as the thorough one (where the text above names a '
             'reduced "quick" cell set, that reduction is no longer applied); no property has a reduced quick tier any more.')

HEAVY_NOTE = {
    'C12': ' Quick cell set as built: all 18 scales x 35 bit lengths (every 7th and the boundaries 1-3, 23-26, 52-56, 63-65, 126, 127) x both signs x both float types (2572 cells); thorough: all 127 bit lengths.',
    'C13': ' Quick cell set as built: every 5th (f64) / 3rd (f32) exponent field plus the boundary fields, both signs (1066 cells); thorough: every exponent field.',
    'C16': ' Quick cell set as built: 34 normalisation shifts of Knuth D (every 5th and the boundaries), boundary shifts of the wrappers; thorough: all 128 / all 39.',
}

PENDING = 'check under construction in this session (design in DESIGN.md section 5); not claimed until its ./check command exists'


def main():
    props = [json.loads(l)['id'] for l in open(os.path.join(HERE, 'properties.jsonl'))]
    checks = []
    for pid in props:
        if pid not in CHECKS:
            continue
        c = CHECKS[pid]
        checks.append({
            'property_id': pid,
            'quick_cmd': './check %s --tier quick' % pid,
            'thorough_cmd': './check %s --tier thorough' % pid,
            'evidence_file': '/verif/evidence/%s.json' % pid,
            'replay_cmd_template': './check %s --replay {path}' % pid,
            'engine': 'fpsa',
            'level_claimed': {'category': c['category'], 'text': c['text'], 'design_ref': c['design_ref']},
            'level_note': c['note'] + (FULL_NOTE if pid in FULL_IN_QUICK else HEAVY_NOTE.get(pid, '')),
            'technique': c['technique'],
        })
    na = []
    for pid in props:
        if pid in CHECKS:
            continue
        na.append({'property_id': pid, 'reason': NOT_APPLICABLE.get(pid, PENDING)})
    fixes = []
    try:
        log = subprocess.check_output(['git', '-C', '/repo', 'log', '--format=%H %s'], text=True)
        fixes = [l.split()[0] for l in log.splitlines() if l.split(' ', 1)[1].startswith('fix:')]
    except Exception:
        pass
    m = {
        'version': 1,
        'setup_cmd': 'cargo +nightly build --release --offline --manifest-path driver/Cargo.toml && python3 -m compileall -q fpsa && python3 -m fpsa.extract default packed num-traits all nostd core-nostd',
        'hooks': {
            'guard': 'fpdec_verif',
            'enable': 'none: static analysis reads the unmodified tree; no hook or instrumentation is compiled into fpdec',
            'baseline_off_cmd': 'cd /repo && cargo test --workspace --no-fail-fast --offline',
            'source_commits': fixes,
            'add_only': True,
        },
        'engines': [
            {'name': 'mirx', 'path': 'driver/', 'serves_properties': sorted(CHECKS), 'kind_free_text': 'rustc_private driver exporting MIR-lite JSON facts (resolved callees, ADTs, impls, statics, evaluated constants) for every crate and feature configuration'},
            {'name': 'fpsa', 'path': 'fpsa/', 'serves_properties': sorted(CHECKS), 'kind_free_text': 'python analyser: structural rules (Engine A) and an abstract interpreter over MIR with interval x congruence x polynomial-term domains run per cell of a finite input partition (Engine B)'},
        ],
        'checks': checks,
        'not_applicable': na,
        'notes': 'Technique family: static analysis only. Every verdict is computed from the MIR of /repo\'s current working tree; nothing of the library is executed. See DESIGN.md.',
    }
    with open(os.path.join(HERE, 'MANIFEST.json'), 'w') as fh:
        json.dump(m, fh, indent=1)
    print('MANIFEST.json: %d checks, %d not_applicable' % (len(checks), len(na)))


if __name__ == '__main__':
    main()
