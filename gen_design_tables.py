#!/usr/bin/env python3
"""Rewrites the generated tables of DESIGN.md section 12.7 (between the SEEDED-TABLE / MUTANT-TABLE markers) from seeded/*/meta.json and selftest/mutants.json."""
import glob, json, os, re
HERE = os.path.dirname(os.path.abspath(__file__))


def main():
    p = os.path.join(HERE, 'DESIGN.md')
    t = open(p).read()
    rows = ['| change | what it does | alarming checks |', '|--------|--------------|-----------------|']
    for d in sorted(glob.glob(os.path.join(HERE, 'seeded', '*', 'meta.json'))):
        m = json.load(open(d))
        rows.append('| %s | %s | %s |' % (m['id'], m['what'].replace('|', '/')[:260], ', '.join(m.get('detected_by') or []) or '**missed**'))
    t = re.sub(r'(<!-- SEEDED-TABLE-BEGIN -->\n).*?(<!-- SEEDED-TABLE-END -->)', lambda mo: mo.group(1) + '\n'.join(rows) + '\n' + mo.group(2), t, flags=re.S)
    mut = json.load(open(os.path.join(HERE, 'selftest', 'mutants.json')))
    rows = ['| mutant | what | expected (and observed) alarm |', '|--------|------|-------------------------------|']
    for m in mut:
        rows.append('| %s | %s | %s |' % (m['id'], m.get('what', '')[:140], ', '.join(m.get('expect') or []) or 'silent (behaviour preserving)'))
    t = re.sub(r'(<!-- MUTANT-TABLE-BEGIN -->\n).*?(<!-- MUTANT-TABLE-END -->)', lambda mo: mo.group(1) + '\n'.join(rows) + '\n' + mo.group(2), t, flags=re.S)
    open(p, 'w').write(t)


if __name__ == '__main__':
    main()
